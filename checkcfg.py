"""Per-property shard plans for ./check (see DESIGN.md section 5)."""

def S(test, checks=100, **kw):
    d = {"test": test, "checks": checks}
    d.update(kw)
    return d

def shards(n, test, checks, **kw):
    return [S(test, checks, **kw) for _ in range(n)]

RULES = {}
PROPS = {}

RULES["C12"] = ("cases: Threshold(s) for s drawn from {1,2,3,20,50,1000, tie values, [1,2000], [1,10^6]} (thorough: every s in 1..10^6) "
                "and ThresholdQ(list) for lists of 1..2000 values mixing uniform [0,1], the exact doubles 0,0.1,...,1.0 and their "
                "Nextafter neighbours, clustered values, each also evaluated in a drawn permutation. non-trivial: s whose real "
                "threshold lies within 0.01 of an integer (or s in {20,50,1000}); a list containing a value exactly on an interval "
                "edge or with reference uniformity P strictly inside (1e-9,1-1e-9). distinct: hash of the case JSON.")
PROPS["C12"] = {
    "level": "exploration",
    "quick": [S("TestC12", 4000, floor=2000), S("TestC12", 4000, floor=2000), S("TestC12Sweep", floor=10, env={"VERIF_LO": 1, "VERIF_HI": 20000})],
    "thorough": [S("TestC12Sweep", floor=1000, env={"VERIF_LO": 1 + i * 62500, "VERIF_HI": (i + 1) * 62500}) for i in range(16)]
                + shards(8, "TestC12", 30000, floor=10000),
    "exhaustive": {"thorough": "Threshold(s) for every s in 1..10^6"},
    "assumptions": ["Go math.Erfc/Sqrt trusted", "reference Igamc validated against an mpmath table on every run"],
}
