"""Per-property shard plans for ./check (see DESIGN.md section 5)."""

def S(test, checks=100, **kw):
    d = {"test": test, "checks": checks}
    d.update(kw)
    return d

def shards(n, test, checks, **kw):
    return [S(test, checks, **kw) for _ in range(n)]

RULES = {}
PROPS = {}

RULES["C12"] = ("cases: Threshold(s) for s drawn from {1,2,3,20,50,1000, tie values, [1,2000], [1,10^6]} and, in both tiers, every s in 1..10^6 (exhaustive sweep) "
                "and ThresholdQ(list) for lists of 1..2000 values mixing uniform [0,1], the exact doubles 0,0.1,...,1.0 and their "
                "Nextafter neighbours, clustered values, and (one case in sixteen, plus a deterministic grid) long lists of 2001..10^6 values of which a fraction 0/0.001/0.005/0.02/0.05/0.3/1 falls into one drawn interval; each also evaluated in a drawn permutation. non-trivial: s whose real "
                "threshold lies within 0.01 of an integer (or s in {20,50,1000}); a list containing a value exactly on an interval "
                "edge or with reference uniformity P strictly inside (1e-9,1-1e-9). distinct: hash of the case JSON.")
PROPS["C12"] = {
    "level": "exploration",
    "quick": [S("TestC12Sweep", floor=1000, env={"VERIF_LO": 1 + i * 125000, "VERIF_HI": (i + 1) * 125000}) for i in range(8)] + shards(4, "TestC12", 20000, floor=5000),
    "thorough": [S("TestC12Sweep", floor=1000, env={"VERIF_LO": 1 + i * 62500, "VERIF_HI": (i + 1) * 62500}) for i in range(16)]
                + shards(8, "TestC12", 300000, floor=60000, timeout=3400),
    "exhaustive": {"quick": "Threshold(s) for every s in 1..10^6", "thorough": "Threshold(s) for every s in 1..10^6"},
    "assumptions": ["Go math.Erfc/Sqrt trusted", "reference Igamc validated against an mpmath table on every run"],
}

RULES["C06"] = ("cases: (a,x,x2) with a = k/2, k from shapes the tests use / [1,40] / [41,1000] / [1001,10000]; x from a mixture: a(1+d) and 1+d "
                "with d log-uniform +-[1e-16,0.3] (both switch-over lines, both sides), a+z sqrt(a) z in [-8,12], a-u sqrt(a) and a+u sqrt(a) (where the series / continued fraction need the most iterations), uniform [0,20a+200], [0,3a], "
                "0, negative, exactly ON the lines x = 1 and x = a and one ulp to either side for every a = k/2, k = 1..600 (sweep), the prefactor-underflow cut-off (a ln x - x - lgamma a = -709.78, found by bisection) +- drawn width, tiny x; "
                "in a third of the cases 1-3 earlier calls with shapes a + j*2^p (p in 6..17, j in 1..3; possibly beyond 5000) precede the call (history); x2 >= x is a 1-4 ulp neighbour, a relative 1e-12..0.3 neighbour or a far point (monotonicity). "
                "Dense windows (TestC06Window, TestC06DenseSweep): 2000..20000 equally spaced consecutive abscissae (step >= 1 ulp) just above / just below / across the switch-over max(1,a), across x = 1, in the bulk, or wide; every point judged for NaN, range and "
                "monotonicity against its predecessor, 16 points per window against the big-float reference, and for a <= 128 every point against a float64 closed form (itself re-validated against the reference inside the window); deterministic sweep: 250000 (thorough 2*10^6) points on [sw/2,sw] and on [sw,3sw/2] for 24 shapes. "
                "non-trivial: reference Q strictly inside (1e-300,1). distinct: hash of (2a,x,x2).")
PROPS["C06"] = {
    "level": "exploration",
    "quick": shards(8, "TestC06", 4000, floor=2000) + [S("TestC06Sweep", floor=1000), S("TestC06DenseSweep", floor=500)] + shards(4, "TestC06Window", 300, floor=150),
    "thorough": [S("TestC06Sweep", floor=1000), S("TestC06DenseSweep", floor=5000, timeout=3400)] + shards(8, "TestC06Window", 12000, floor=3000, timeout=3400) + shards(14, "TestC06", 150000, floor=40000, timeout=3400) + [S("FuzzIgamc", fuzz="FuzzIgamc", fuzztime=240, parallel=4, floor=1000, weight=4, timeout=600)],
    "assumptions": ["reference = finite-sum closed form in 320-bit big.Float, validated against mpmath (600 points) on every run",
                    "math.Erfc trusted (<= 1 ulp)", "x > 20a+200 is outside the stated range and not generated"],
}

_SEQ = ("sequences are recipes drawn by rapid from 14 structural families (explicit bits <=4096, uniform, biased, constant, alternating, periodic tile<=70, "
        "sparse, markov, single transition, uniform+long run, run-list, forced-excursion walk, tone, balanced); lengths from a mixture "
        "{minimum..minimum+3, regime boundaries +-2, <=5000, <=1e5, a few up to 1e6}. ")
RULES["C01"] = (_SEQ + "tests: monobit (bits/bytes), block frequency (automatic m; explicit m small / near n / n / n/2 / arbitrary; bytes), poker m in {2,4,8} "
                "(bits / byte fast paths), overlapping m in {2,3,5,7} (bits/bytes), approximate entropy m in {2,5,7} (bits/bytes); one pattern-test case in eight is exactly equidistributed (whole periods of a de Bruijn cycle of order > m: the true statistic is 0); plus a deterministic sweep over the automatic "
                "block-length boundaries (999,1000,...,10^6+1; thorough 10^8-1,10^8). oracle: independent transcription of GM/T 0005-2021 + big.Float igamc, "
                "|dP|,|dQ| <= 1e-8. non-trivial: reference P strictly inside (1e-12, 1-1e-12). distinct: hash of the case JSON.")
PROPS["C01"] = {
    "level": "exploration",
    "quick": shards(8, "TestC01", 6000, floor=1500) + [S("TestC01Sweep", floor=10)],
    "thorough": shards(15, "TestC01", 100000, floor=20000, timeout=3400) + [S("TestC01Sweep", floor=10), S("TestC01Sweep", mode="huge", floor=2, mem_gb=60)],
    "assumptions": ["reference statistics are my transcription of the standard, validated on the annex known answers on every run",
                    "math.Erfc/Log trusted"],
}

RULES["C02"] = (_SEQ + "tests: runs total (n from 1), runs distribution (n >= 100, lengths at the cut-off boundaries n = 5*2^(k+2)+k-3 +-2 (sweep: every k up to 18, i.e. n up to 5.2*10^6; thorough: k up to 22 and n = 10^7, 10^8), run lengths pinned to k-1,k,k+1), "
                "longest run of ones / zeros (n >= 128, lengths around 6272 and 750000, blockwise sequences whose per-block longest run is forced to each class edge). "
                "A third of the lengths are multiples of 8 and are also sent through the byte entry points (RunsTestBytes, RunsDistributionTestBytes, LongestRunOfOnesInABlockTestBytes). oracle: run-decomposition reference; longest-run class tables re-derived by exact big-integer DP and rounded to printed precision; |dP|,|dQ| <= 1e-8. "
                "non-trivial: >= 3 runs and reference P inside (1e-12,1-1e-12) (runs total: >= 3 runs). distinct: hash of the case JSON.")
PROPS["C02"] = {
    "level": "exploration",
    "quick": shards(8, "TestC02", 5000, floor=1500) + [S("TestC02Sweep", floor=20)],
    "thorough": shards(15, "TestC02", 60000, floor=15000, timeout=3400) + [S("TestC02Sweep", floor=20), S("TestC02Sweep", mode="huge", floor=4, mem_gb=60, timeout=3400)],
    "assumptions": ["reference statistics validated on the annex known answers on every run", "math.Erfc trusted"],
}

RULES["C03"] = (_SEQ + "tests: binary derivative k in {3,7,15} (plus period-2^j tiles whose derivative collapses), autocorrelation d in {1,2,8,16,32} (plus tiles of period d / 2d), "
                "cumulative sums forward/backward (plus walks forced to a maximum excursion Z log-uniform in [1,n], Z in {1,2,3,5,10,n/40,n/4,n/3,n/2,n-1,n} in the sweep, and walks of 4*10^6 and 1.3*10^7 bits confined to |S| <= 1,2,3). One case in four goes through the byte entry point (XxxTestBytes on the packed sequence, n a multiple of 8), and the sweep calls the byte entry points on samples of decreasing length (10^6, 20000, 1000, 104 bits) in one process. "
                "oracle: naive references (fresh slice per derivative pass, explicit pair counting, walk maximum + the standard's normal-CDF series); |dP|,|dQ| <= 1e-8. "
                "non-trivial: reference P inside (1e-12,1-1e-12). distinct: hash of the case JSON.")
PROPS["C03"] = {
    "level": "exploration",
    "quick": shards(8, "TestC03", 6000, floor=1500) + [S("TestC03Sweep", floor=20)],
    "thorough": shards(15, "TestC03", 100000, floor=20000, timeout=3400) + [S("TestC03Sweep", floor=20)],
    "assumptions": ["reference statistics validated on the annex known answers on every run", "math.Erfc trusted"],
}

RULES["C04"] = ("linear complexity: (a) every one of the 2^m blocks for m = 1..12 (quick) / 1..18 (thorough) as a one-block input (exhaustive); (b) m in {500,1000,(5000 thorough), 1..64} with "
                "1..12 blocks each drawn from {LFSR output of drawn degree L in [0,m] or m/2+-6, all-zero, 0^(m-1)1, 1 0^(m-1), L leading zeros then random (complexity L+1), random, explicit bits} "
                "+ a trailing partial block; rank: 1..40 row-major 32x32 matrices each built as a product of random 32xr and rx32 matrices (r in {32,31,28..30,0..32}) + trailing bits; "
                "Maurer: n from 7*1281 to 60000 (some to 10^6 thorough), uniform/biased/constant/periodic/markov/sparse, optionally the 1280 initialisation blocks rewritten from a restricted 7-bit alphabet. "
                "Half of the byte-aligned cases also go through the registry runner. oracle: bitset GF(2) elimination, textbook Berlekamp-Massey with growing slices, map-based Maurer; panic = violation; |dP|,|dQ| <= 1e-8. "
                "byte-aligned inputs additionally go through LinearComplexityTestBytes / MatrixRankTestBytes / MaurerUniversalTestBytes and the registry runners. non-trivial: a block whose complexity L has 2L-m outside [-2,3] (atypical class); a matrix of rank <= 30; a 7-bit pattern absent from the initialisation segment or reference P inside (1e-12,1-1e-12). distinct: hash of the case JSON.")
PROPS["C04"] = {
    "level": "exploration",
    "quick": shards(6, "TestC04", 1200, floor=300) + [S("TestC04", 1200, mode="rank", floor=300), S("TestC04", 800, mode="maurer", floor=200)]
             + [S("TestC04Exhaustive", floor=1000, env={"VERIF_LO": 1, "VERIF_HI": 12, "VERIF_PART": i, "VERIF_PARTS": 4}) for i in range(4)],
    "thorough": shards(8, "TestC04", 20000, floor=4000, timeout=3400) + shards(2, "TestC04", 15000, mode="rank", floor=3000, timeout=3400) + shards(2, "TestC04", 10000, mode="maurer", floor=2000, timeout=3400)
             + [S("TestC04Exhaustive", floor=10000, env={"VERIF_LO": 1, "VERIF_HI": 18, "VERIF_PART": i, "VERIF_PARTS": 8}, timeout=3400) for i in range(8)]
             + [S("FuzzLinearComplexity", fuzz="FuzzLinearComplexity", fuzztime=300, parallel=6, floor=1000, weight=6, timeout=600),
                S("FuzzRank", fuzz="FuzzRank", fuzztime=240, parallel=4, floor=1000, weight=4, timeout=600)],
    "exhaustive": {"quick": "all 2^m one-block inputs of LinearComplexityProto for m = 1..12", "thorough": "all 2^m one-block inputs of LinearComplexityProto for m = 1..18"},
    "assumptions": ["reference statistics validated on the annex known answers (e-expansion) on every run",
                    "linear-complexity class probabilities are the printed decimals of the standard (0.010417 ... 0.020833)"],
}

RULES["C05"] = ("sequences from families {explicit bits, uniform, biased, constant, alternating, periodic, tone, markov, sparse, balanced, single transition}; n from "
                "{2..64, 2^k, 2^k+1 (maximal padding), 2^k-1, 65..4096, 4097..2^15 (2^18 thorough)} plus a sweep over every n in 2..64 and {2^16,2^16+1,10^5,2^17,10^6 (2^19+1, 2^20 thorough)}; "
                "half of the byte-aligned cases go through the byte entry point. oracle: magnitudes from a naive O(N^2) DFT (N <= 2048) or an independent recursive FFT; bins within relative 1e-9 "
                "of the threshold are ambiguous and any count in [lo, lo+amb] is accepted; |dP|,|dQ| <= 1e-8. non-trivial: 0 < N1 and N1+amb < n/2-1 (the count discriminates). distinct: hash of the case JSON.")
PROPS["C05"] = {
    "level": "exploration",
    "quick": shards(8, "TestC05", 1500, floor=400) + [S("TestC05Sweep", floor=100)],
    "thorough": shards(15, "TestC05", 12000, floor=3000, timeout=3400) + [S("TestC05Sweep", floor=100, env={"VERIF_HI": 300})]
                + [S("TestC05Huge", floor=1, env={"VERIF_N": n}, mem_gb=40, weight=4, timeout=3400) for n in (100000000, 1 << 27)],
    "assumptions": ["generated cases use n <= 2^18; the thorough tier additionally runs n = 10^8 and n = 2^27 (the top of the stated range) on single-transition sequences whose spectrum has a closed form (no reference transform needed)",
                    "math.Sincos/cmplx.Abs trusted"],
}

RULES["C19"] = ("cases: transform (N = 2^p, p in 1..12 mostly, 13..15 (20 thorough) sometimes; input = unit impulse at a drawn position, pure tone at a drawn frequency, random complex, random +-1, "
                "explicit rapid-drawn values for N <= 64), constructor arguments (-5..70, 2..70000, 2^k-1/2^k/2^k+1, 2^27+1, 2^28, 2^40, MaxInt64, negatives, 2..2^22), wrong-length slices "
                "(0,1,N-1,N+1,2N,N/2,3) for Transform and Inverse; sweep: impulses and tones at every position for N <= 64 (256 thorough), every constructor argument -3..3000 (70000 thorough). "
                "oracle: naive DFT for N <= 4096; analytic spectra of impulses/tones, 36 directly summed bins + Parseval above; tolerance 1e-12*log2(N)*|x|; Inverse(Transform(x)) = x. "
                "non-trivial: N >= 4 and not the impulse at 0; constructor argument not itself a power of two or refused; every mismatch case. distinct: hash of the case JSON.")
PROPS["C19"] = {
    "level": "exploration",
    "quick": shards(8, "TestC19", 2000, floor=500) + [S("TestC19Sweep", floor=100), S("TestC19FirstCall", floor=5, env={"VERIF_NO_PRELUDE": 1})],
    "thorough": shards(15, "TestC19", 30000, floor=8000, timeout=3400) + [S("TestC19Sweep", floor=100, env={"VERIF_HI": 70000}, timeout=3400), S("TestC19FirstCall", floor=5, env={"VERIF_NO_PRELUDE": 1})]
                + [S("FuzzFFTNew", fuzz="FuzzFFTNew", fuzztime=180, parallel=4, floor=1000, weight=4, timeout=600)],
    "assumptions": ["fft.New(2^27) is constructed once per run (3 GB); a full 2^27-point transform (unit impulse, analytic spectrum on sampled bins, inverse round trip) only in the thorough tier",
                    "a panic on a wrong-length slice counts as 'refused' (the property says refused rather than computed)"],
}

_STREAM = ("streams are composed by rapid from a committed pool of classified PRNG samples (search guidance only; every oracle recomputes all results on the current tree): "
           "targets {pass count of a drawn item at allowed-1..allowed+2 failing samples, ten-bin Q histogram of a drawn item drawn from all partitions of s with uniformity P in [1e-6,1e-2] "
           "in a drawn bin order, two items failing, 'half' (a two-sided item whose Q-values all lie in one half of [0,1]: the Q histogram fails while the P histogram would pass), 'mixed' (item i fails only the uniformity criterion with a two-bin histogram while a later item j fails only the pass count), 'one-bad' (all-pass samples plus exactly the tolerated number of stuck-at samples), random pool samples, all-pass samples, (periodic) 20 degree-63 LFSR samples that only the excluded items 13-15 reject}, samples shuffled, "
           "0 / 1 / sampleBytes-1 / sampleBytes / 3*sampleBytes trailing bytes (zero or random); an eighth of the streams end exactly after the last sample with io.EOF returned together with the final bytes, an eighth come from a standard *bytes.Reader / *os.File positioned behind a header of zeros. History: a third of the cases (C07, C08, C10, C14) are preceded, in the same process, by another detection - the same workflow or any of period / poweron / factory, sequential or parallel, or the single-shot one - on a source that ran dry after 1..49999 bytes. ")
RULES["C07"] = (_STREAM + "C07 additionally: 'replayed' - one all-pass sample repeated r times (r in 2..s, half of the time >= 3s/4), the rest distinct all-pass samples: every item has r Q-values in one interval. oracle: independent decision model (exact-integer threshold, own binning, big.Float igamc) over the registry runners' results on each sample: verdict equal, nil error iff true, "
                "error names an item violating a criterion; (periodic) same outcome with and without the trailing bytes. non-trivial: some item's pass count in {t-1,t} or some item's uniformity P in [1e-5,1e-3]. "
                "distinct: hash of the case JSON.")
PROPS["C07"] = {
    "level": "exploration",
    "quick": shards(6, "TestC07", 150, mode="period", floor=50) + [S("TestC07", 1, mode="poweron", floor=1, weight=2, env={"VERIF_TARGETS": tg}) for tg in ("one-bad", "passcount", "uniformity", "mixed", "half", "two-items", "replayed")]
             + [S("TestC07", 1, mode="factory", floor=1, weight=2, env={"VERIF_TARGETS": tg}) for tg in ("one-bad", "uniformity", "half")],
    "thorough": shards(6, "TestC07", 6000, mode="period", floor=1500, timeout=3400) + shards(7, "TestC07", 20, mode="poweron", floor=6, weight=2, timeout=3400)
                + shards(3, "TestC07", 8, mode="factory", floor=3, weight=2, timeout=3400),
    "assumptions": ["the registry runners' per-sample results are taken as given (their correctness is C01-C05/C15/C16)",
                    "pool annotations (computed once on the repaired tree) only steer generation"],
}

_CPUS = ["0", "0-1", "0-2", "0-4", None]   # taskset masks: runtime.NumCPU() (= worker count) of 1, 2, 3, 5 and all

RULES["C08"] = (_STREAM + "each stream is judged by the sequential workflow (full reads) and then by its parallel twin through a reader that delays individual Read calls "
                "(none / Gosched x k / sleep 50-2000 us, drawn plan), with GOMAXPROCS drawn from {1,2,4,16} and the worker count varied by running shards under taskset with 1, 2, 3, 5 and all CPUs; "
                "a second binary built with -race repeats a reduced budget (any race report = violation). oracle: verdicts equal; if false, both errors name the same registry item; nil error iff true. "
                "non-trivial: sequential verdict true, or false for a reason other than 'item passes on no sample'. distinct: hash of the case JSON. One deterministic shard feeds the periodic workflows through an OS pipe (a source with read deadlines) whose producer pauses 0 s / 0.2 s / 12 s before the last sample.")
PROPS["C08"] = {
    "level": "exploration",
    "quick": [S("TestC08", 70, mode="period", cpus=c, floor=30) for c in _CPUS] + [S("TestC08", 70, mode="period", floor=30)]
             + [S("TestC08", 25, mode="period", race=True, floor=10, weight=3)]
             + [S("TestC08", 1, mode="poweron", floor=1, weight=3, env={"VERIF_TARGETS": "mixed"}), S("TestC08", 1, mode="poweron", floor=1, weight=3, env={"VERIF_TARGETS": "mixed"}),
                S("TestC08", 1, mode="poweron", cpus="0-2", floor=1, weight=3, env={"VERIF_TARGETS": "one-bad"}), S("TestC08", 1, mode="factory", floor=1, weight=4, env={"VERIF_TARGETS": "one-bad"}), S("TestC08SlowPipe", floor=3)],
    "thorough": [S("TestC08SlowPipe", floor=3)] + [S("TestC08", 4000, mode="period", cpus=c, floor=1000, timeout=3400) for c in _CPUS] + shards(3, "TestC08", 4000, mode="period", floor=1000, timeout=3400)
             + shards(2, "TestC08", 800, mode="period", race=True, floor=200, weight=2, timeout=3400)
             + [S("TestC08", 12, mode="poweron", cpus=c, floor=4, weight=3, timeout=3400) for c in ("0-1", "0-4", None, None)]
             + [S("TestC08", 5, mode="factory", floor=2, weight=4, timeout=3400), S("TestC08", 1, mode="poweron", race=True, floor=1, weight=4, timeout=3400)],
    "assumptions": ["interleavings are sampled and perturbed, not enumerated; delays inside the test runners are not injectable without a hook",
                    "the race detector only sees races on executed paths"],
}

RULES["C09"] = ("fault points: workflow in {factory, poweron, period} x {sequential, parallel} and single-shot; failure kind in {io.EOF, io.ErrUnexpectedEOF, custom error, error returned with a partial read, "
                "transient error followed by more data, an error of its own concrete type followed by io.EOF, a one-off error returned together with a partial read, an *os.PathError (EIO) on every Read, io.EOF followed by *os.PathError, and (deterministic shard) a failing Read that itself takes 35 s to return, a never-ending error that claims Temporary() == true}; offset enumerated: SingleDetect every offset for numByte in {16,40,1280}; periodic workflows every sample boundary -1/0/+1, first/last three offsets, two interior ones; "
                "10^6-bit workflows offsets {0,1,mid-sample,sample-1,sample,sample+1} (thorough: also deep/last-sample offsets); plus rapid-drawn offsets, read-delay plans and GOMAXPROCS for the parallel variants. "
                "oracle: returns (false, err != nil); 'returns' is decided by a quiescence detector (three consecutive 100 ms snapshots in which every goroutine with a library frame is parked on a channel/semaphore/mutex) "
                "not by a stopwatch (a workflow that is still reading after 10^6 failed Reads of a permanently failing source is judged a livelock); afterwards the library goroutines drain back to the baseline. non-trivial: at least one full sample was delivered before the failure (single-shot: offset > 0). distinct: hash of the case JSON.")
PROPS["C09"] = {
    "level": "fault_enumeration",
    "quick": [S("TestC09Enum", mode="single", floor=1000)] + [S("TestC09Enum", mode="period", floor=50, env={"VERIF_PART": i, "VERIF_PARTS": 4}) for i in range(4)]
             + [S("TestC09Enum", mode="big", floor=5, env={"VERIF_PART": i, "VERIF_PARTS": 6}, weight=2) for i in range(6)]
             + [S("TestC09", 150, mode="period", floor=50), S("TestC09", 150, mode="period", cpus="0-1", floor=50), S("TestC09", 400, mode="single", floor=100)]
             + [S("TestC09", 60, mode="period", race=True, floor=20, weight=2), S("TestC09SlowFail", floor=2)],
    "thorough": [S("TestC09SlowFail", floor=5, timeout=3400), S("TestC09Enum", mode="single", floor=1000)] + [S("TestC09Enum", mode="period", floor=50, env={"VERIF_PART": i, "VERIF_PARTS": 4}) for i in range(4)]
             + [S("TestC09Enum", mode="big", floor=5, env={"VERIF_PART": i, "VERIF_PARTS": 6}, weight=2) for i in range(6)]
             + [S("TestC09", 10000, mode="period", cpus=c, floor=2500, timeout=3400) for c in _CPUS] + [S("TestC09", 50000, mode="single", floor=10000)]
             + [S("TestC09", 20, mode="poweron", floor=6, weight=3, timeout=3400), S("TestC09", 12, mode="factory", floor=4, weight=3, timeout=3400)]
             + [S("TestC09", 2000, mode="period", race=True, floor=500, weight=2, timeout=3400)],
    "assumptions": ["the harness owns the only external party (the reader), so 'all library goroutines parked' means nothing can wake them",
                    "a source that returns (0, nil) forever is outside the property"],
}

RULES["C10"] = (_STREAM + "each stream is delivered once in full-buffer reads to the sequential workflow (reference) and once through a chunking reader to the workflow under test (sequential or parallel; SingleDetect too): "
                "plans {all 1-byte reads, fixed prime size 2..8191, random sizes in [1, sampleBytes+7], sizes sampleBytes+-1/-7/+13 that straddle every sample boundary, full reads with one short read per cycle, a first read that leaves 'j buffers of 2^p bytes plus a tail below 600 bytes' missing followed by full reads}; a quarter of the workflow cases instead use a standard *bytes.Reader or *os.File (which also implement io.ReaderAt / io.Seeker) positioned behind a header of zero bytes. "
                "oracle: equal verdict and, when false, the same named item; SingleDetect consumes exactly numByte. non-trivial: the full-read verdict is true (stale or zero bytes would flip it) or the named item is not item 1. "
                "distinct: hash of the case JSON.")
PROPS["C10"] = {
    "level": "exploration",
    "quick": shards(5, "TestC10", 120, mode="period", floor=40) + [S("TestC10", 400, mode="single", floor=100)]
             + [S("TestC10", 1, mode="poweron", env={"VERIF_FAST": 1, "VERIF_TARGETS": "one-bad"}, floor=1, weight=4), S("TestC10", 1, mode="poweron", env={"VERIF_FAST": 0, "VERIF_TARGETS": "one-bad"}, floor=1, weight=2),
                S("TestC10", 1, mode="poweron", env={"VERIF_FAST": 1, "VERIF_TARGETS": "one-bad", "VERIF_PLAN": "pow2-remainder"}, floor=1, weight=4), S("TestC10", 1, mode="factory", env={"VERIF_FAST": 1, "VERIF_TARGETS": "one-bad", "VERIF_PLAN": "pow2-remainder"}, floor=1, weight=4)],
    "thorough": shards(6, "TestC10", 8000, mode="period", floor=2000, timeout=3400) + [S("TestC10", 50000, mode="single", floor=10000)]
             + [S("TestC10", 10, mode="poweron", env={"VERIF_FAST": f}, floor=3, weight=3, timeout=3400) for f in (0, 1, 1)]
             + [S("TestC10", 4, mode="factory", env={"VERIF_FAST": f}, floor=2, weight=3, timeout=3400) for f in (0, 1)]
             + [S("TestC10", 14, mode="poweron", env={"VERIF_FAST": 1, "VERIF_TARGETS": "one-bad", "VERIF_PLAN": "pow2-remainder"}, floor=4, weight=3, timeout=3400) for _ in range(2)],
    "assumptions": ["the reference is the sequential workflow under full reads (its own correctness is C07)"],
}

RULES["C11"] = ("cases: numByte from {0,1,14..17,38..41,1278..1281,4096, [0,60], [1200,1400], 10000, 125000, [0,4096]} (sweep: every numByte 0..200 quick / 0..4096 thorough); content uniform, constant, byte alphabet, "
                "nibble alphabet (e.g. {1,B}: 2-bit patterns uniform, 4-bit not), and 'skewed' content where an m-bit pattern is forced with a drawn probability of the order that moves the poker P across 0.01. "
                "oracle: exactly numByte bytes consumed from a longer source; numByte < 16 => (false, error); else nil error and verdict = (reference poker P >= 0.01) with m = 2 / 4 / 8 for n < 320 / < 10240 / otherwise "
                "(|P-0.01| < 1e-8 skipped). non-trivial: the verdicts under m = 2, 4, 8 would not all agree, or P in [0.001, 0.1], or 14 <= numByte < 16. distinct: hash of the case JSON.")
PROPS["C11"] = {
    "level": "exploration",
    "quick": shards(8, "TestC11", 4000, floor=1000) + [S("TestC11Sweep", floor=100, env={"VERIF_LO": 0, "VERIF_HI": 400})],
    "thorough": shards(12, "TestC11", 200000, floor=50000, timeout=3400) + [S("TestC11Sweep", floor=1000, env={"VERIF_LO": i * 1025, "VERIF_HI": i * 1025 + 1024}) for i in range(4)],
    "assumptions": ["reference poker validated on the annex known answers on every run"],
}

RULES["C14"] = ("sources that repeat a tile of 1..64 bytes forever: constant (all 256 values enumerated through the periodic workflows), uniform random tiles, sparse tiles (1-3 set or cleared bits at any bit position), "
                "structured tiles (counter, 55AA, one-hot, i*37), explicit 1-8 byte tiles; each through the sequential workflow and then its parallel twin; single-shot: 0x00.. and 0xFF.. at lengths {16,39,40,1279,1280}, 16..4096, {65535,65536,65537,70000,2^17,2^20,2^20+1,2^22}, 4097..2^21 drawn "
                "(sweep: every length 16..400 quick / 16..4096 thorough). oracle: no panic, verdict false, error non-nil (single-shot: verdict false). non-trivial: the tile has >= 2 distinct byte values (single-shot cases count). distinct: hash of the case JSON.")
PROPS["C14"] = {
    "level": "exploration",
    "quick": shards(4, "TestC14", 120, mode="period", floor=40) + [S("TestC14", 500, mode="single", floor=100), S("TestC14Enum", floor=200)]
             + [S("TestC14", 1, mode="poweron", floor=1, weight=3, env={"VERIF_TILEKIND": "sparse"}), S("TestC14", 1, mode="poweron", floor=1, weight=3, env={"VERIF_TILEKIND": "uniform"}),
                S("TestC14", 1, mode="factory", floor=1, weight=3, env={"VERIF_TILEKIND": "sparse"})]
             + [S("TestC14Enum", mode="big", floor=1, weight=2, env={"VERIF_PART": i, "VERIF_PARTS": 4, "VERIF_NO_PRELUDE": 1}) for i in range(4)],
    "thorough": [S("TestC14Enum", mode="big", floor=1, weight=2, env={"VERIF_PART": i, "VERIF_PARTS": 4, "VERIF_NO_PRELUDE": 1}) for i in range(4)] + shards(6, "TestC14", 8000, mode="period", floor=2000, timeout=3400) + [S("TestC14", 20000, mode="single", floor=4000), S("TestC14Enum", floor=200, env={"VERIF_HI": 4096})]
             + shards(5, "TestC14", 10, mode="poweron", floor=3, weight=2, timeout=3400) + shards(2, "TestC14", 4, mode="factory", floor=2, weight=2, timeout=3400),
    "assumptions": ["the 10^6-bit workflows cost 10-80 s per stream, so only a few tiles per run go through them"],
}

RULES["C15"] = ("byte strings (128..4000 bytes, >= the test's minimum; odd and even lengths; families uniform, biased, periodic, markov, constant, sparse, run-list, explicit; a few of 125000) x the fifteen tests x their documented parameters. "
                "oracle (bit-identity, math.Float64bits): byte entry point = bit entry point on the harness's own MSB-first expansion = convenience wrapper; with the standard's default parameter (poker 8, overlapping 5, ones, k=7, d=16, 32x32, forward, "
                "ApEn 5, LC 500, automatic block length) = registry runner = TestMethodArr[i].Runner for the i-th test of the standard; Round15 = runners 0..14 in order, Round12 = runners 0..11, lengths 15/12; ReadGroup(file) = expansion of the bytes; "
                "B2bitArr/B2bit/B2Byte round trip. non-trivial: odd byte length or non-uniform content. distinct: hash of the case JSON.")
PROPS["C15"] = {
    "level": "exploration",
    "quick": shards(8, "TestC15", 1200, floor=300) + [S("TestC15Sweep", floor=50)],
    "thorough": shards(14, "TestC15", 12000, floor=3000, timeout=3400) + [S("TestC15Sweep", floor=50)],
    "assumptions": ["the mapping 'i-th test of the standard' -> exported function is the harness's table (GM/T 0005-2021 numbering)"],
}

RULES["C16"] = ("every one of the fifteen tests x its documented parameters on extreme sequences: constant 0/1, alternating, single transition at a drawn position, bias 0.001..0.999, exactly balanced, sparse, uniform with a long run, periodic, markov, forced-excursion walk, run-list, tone, "
                "explicit bits; lengths from the test's minimum (mixture incl. minimum..+3 and boundaries) and a deterministic sweep at the minimum and at 10^6 bits (thorough: 10^7; DFT <= 4*10^6). Half of the cases also go through the registry runner. "
                "oracle: no NaN/Inf; P,Q (P2,Q2) in [-1e-9,1+1e-9]; two-sided tests |P - 2 min(Q,1-Q)| <= 1e-9; chi-square tests |P-Q| <= 1e-9; Pass == (P >= 0.01) with min(P,P2) for overlapping (|P-0.01| < 1e-12 skipped). "
                "non-trivial: the statistic saturates (P < 1e-12 or > 1-1e-12) or the content is not uniform. distinct: hash of the case JSON.")
PROPS["C16"] = {
    "level": "exploration",
    "quick": [S("TestC16PassBoundary", floor=50)] + shards(6, "TestC16", 1200, floor=400) + [S("TestC16Sweep", floor=20, env={"VERIF_PART": i, "VERIF_PARTS": 6}) for i in range(6)],
    "thorough": [S("TestC16PassBoundary", floor=200, env={"VERIF_PER_TEST": 400})] + shards(10, "TestC16", 60000, floor=15000, timeout=3400) + [S("TestC16Sweep", floor=20, env={"VERIF_PART": i, "VERIF_PARTS": 3}) for i in range(3)]
                + [S("TestC16Sweep", floor=10, env={"VERIF_PART": i, "VERIF_PARTS": 3, "VERIF_BIG": 1}, timeout=3400, mem_gb=60) for i in range(3)],
    "assumptions": ["DFT above 2^22 points is not executed"],
}

RULES["C17"] = (_SEQ + "x a transformation admissible for the drawn test: complement (all but rank / linear complexity; monobit Q -> 1-Q; longest run of ones <-> zeros), reverse (monobit, runs, runs distribution, autocorrelation, binary derivative, "
                "overlapping, approximate entropy; cumulative sums forward <-> backward), cyclic rotation by 1 / n-1 / n/2 / a drawn amount (overlapping, approximate entropy), permutation of whole blocks + rewrite of the discarded tail "
                "(block frequency, poker, longest run, rank, linear complexity; at least 3 blocks); sweep: every (test, parameter, transformation) at 20000, 2^16+1, 2*2^16+3 and 10^6+3 bits. oracle: metamorphic equality within 2e-8 (two results that each meet the 1e-8 allowance of C01-C05 can differ by that much). "
                "non-trivial: transformed sequence differs from the original and P inside (1e-12,1-1e-12). distinct: hash of the case JSON.")
PROPS["C17"] = {
    "level": "exploration",
    "quick": shards(6, "TestC17", 1200, floor=400) + [S("TestC17Sweep", floor=5, env={"VERIF_PART": i, "VERIF_PARTS": 8}) for i in range(8)],
    "thorough": shards(8, "TestC17", 60000, floor=15000, timeout=3400) + [S("TestC17Sweep", floor=5, env={"VERIF_PART": i, "VERIF_PARTS": 8}) for i in range(8)],
    "assumptions": ["rank and linear complexity are not asserted under complement or reversal (the property does not list them)"],
}

RULES["C18"] = ("a plan of 2..64 goroutines, each assigned a drawn test (the fifteen registry tests through runner / byte entry point / bit entry point with a documented parameter, Round12, Round15) and one of 1..4 shared inputs "
                "(1200..4000 bytes and their bit expansions; uniform, biased, markov, periodic, sparse; one case in four 16..60 bytes; one case in six 9000..130000 bytes with the cheaper tests only), GOMAXPROCS in {2,4,16}. oracle: every task computed alone first, then once more (determinism, bit-identical), then all released from a barrier: "
                "each concurrent result bit-identical to the solitary one, every input slice equal to its snapshot afterwards; the same check also runs in a -race binary (a race report is a violation). Deterministic shards call every test x documented parameter x entry point 70000 times in a row (1.2 million thorough; more than a 16-bit / 20-bit counter holds), alternating between two inputs of different length: every result bit-identical to the first one for that input. One case in four uses the shortest admissible inputs (128..480 bits). Three deterministic shards call every test (default parameter, both entry points) three times on 6- and 12-million-bit inputs: bit-identical. "
                "Crowd shards: 32 and 48 simultaneous invocations of one test (all but linear complexity) on two shared inputs of 2^20+.. and 1.5*2^20 bits (DFT on 2^21 points), more callers than any fixed pool has slots. "
                "In every concurrent phase a deadlock (every goroutine inside the library parked for 5 s without interruption) is a violation, not a timeout. "
                "non-trivial: at least two goroutines share an input and at least two distinct tests run. distinct: hash of the case JSON.")
PROPS["C18"] = {
    "level": "exploration",
    "quick": shards(4, "TestC18", 60, floor=20) + shards(3, "TestC18", 25, race=True, floor=8, weight=3)
             + [S("TestC18ManyCalls", floor=5, env={"VERIF_PARTS": 4, "VERIF_PART": i}) for i in range(4)]
             + [S("TestC18Huge", floor=3, env={"VERIF_PARTS": 3, "VERIF_PART": i}) for i in range(3)]
             + [S("TestC18Crowd", floor=5, weight=2, env={"VERIF_PARTS": 4, "VERIF_PART": i}) for i in range(4)],
    "thorough": shards(8, "TestC18", 4000, floor=1000, timeout=3400) + shards(6, "TestC18", 400, race=True, floor=150, weight=2, timeout=3400)
             + [S("TestC18ManyCalls", floor=5, env={"VERIF_PARTS": 8, "VERIF_PART": i, "VERIF_CALLS": 1200000}, timeout=3400) for i in range(8)]
             + [S("TestC18Huge", floor=3, env={"VERIF_PARTS": 3, "VERIF_PART": i}) for i in range(3)]
             + [S("TestC18Crowd", floor=5, weight=2, env={"VERIF_PARTS": 4, "VERIF_PART": i}) for i in range(4)],
    "assumptions": ["interleavings are sampled (barrier release, GOMAXPROCS), not enumerated", "the race detector only sees races on executed paths"],
}

RULES["C13"] = ("a directory tree in a scratch dir: 1..40 sample files (2*10^4 scale; 1..3 at 10^6; 1..4 short files for the 10^8 worker), suffix .bin/.dat, base names from [a-zA-Z0-9_-] and, one in four, from characters special to formatters/shells/CSV readers such as '%', space, quotes, brackets, non-ASCII (duplicates across sub-directories allowed), nesting depth 0..3 (one directory name in four paths is not valid UTF-8), "
                "0..5 non-sample files of other suffixes, sometimes a directory whose name ends in .bin/.dat; contents uniform/biased/markov/periodic/constant/sparse/run-list; -n in 1..64, GOMAXPROCS in {1,2,16}; the input directory is given as an absolute path, as 'in', './in', '../<dir>/in', with a trailing slash, or is a directory whose name starts with a dot; in a third of the runs the -o path already holds an older report (1 byte .. 400 KB). The built rddetector binary is run "
                "end to end at the 2*10^4 and 10^6 scales; worker_1E8 is driven directly through a go test -overlay shim on 100000..200000-bit files; main's scale switch for 10^8 is observed on sparse 12.5 MB files (header line read, process killed). "
                "One deterministic shard runs the 10^6 scale with 2 and 3 workers on 13 / 18 files of which two take ten times longer than the rest (results finish far out of order). One deterministic shard processes 1100 files (3000 thorough) in nested directories with 3 and with 64 workers under the usual descriptor limit of 1024. Some shards pin 'one worker, >= 2-3 files' (a worker then handles consecutive files) and some run a -race build of the binary / shim (a race report is a violation). oracle: exit status 0 within the budget (a stuck child gets SIGQUIT: all goroutines blocked = violation, merely slow = inconclusive); report = the scale's header + exactly one row per sample file (multiset on base names, rows of equal name matched by values); "
                "every cell equals, to 6 decimals (+-1 unit), the library's P/Q value for the test, parameter and component that the header column names. non-trivial: >= 2 files and a worker count different from the file count. distinct: hash of the case JSON.")
PROPS["C13"] = {
    "level": "exploration",
    "need": ["rddetector", "shim", "rddetector_race", "shim_race"],
    "quick": [S("TestC13", 30, env={"VERIF_SCALE": "2E4"}, floor=10) for _ in range(3)]
             + [S("TestC13", 12, env={"VERIF_SCALE": "2E4", "VERIF_RACE_BIN": 1}, floor=4, weight=2), S("TestC13", 8, env={"VERIF_SCALE": "2E4", "VERIF_RACE_BIN": 1, "VERIF_WORKERS": 1, "VERIF_MINFILES": 3}, floor=3, weight=2)]
             + [S("TestC13", 1, env={"VERIF_SCALE": "1E6"}, floor=1, weight=3), S("TestC13", 1, env={"VERIF_SCALE": "1E6", "VERIF_WORKERS": 1, "VERIF_MINFILES": 3}, floor=1, weight=2),
                S("TestC13", 1, env={"VERIF_SCALE": "1E6", "VERIF_WORKERS": 1, "VERIF_MINFILES": 2, "VERIF_MAXFILES": 2, "VERIF_RACE_BIN": 1}, floor=1, weight=2)]
             + [S("TestC13", 2, env={"VERIF_SCALE": "1E8"}, floor=1, weight=2), S("TestC13", 1, env={"VERIF_SCALE": "1E8", "VERIF_WORKERS": 1, "VERIF_MINFILES": 2, "VERIF_RACE_BIN": 1}, floor=1, weight=2),
                S("TestC13", 1, env={"VERIF_SCALE": "1E8hdr"}, floor=1), S("TestC13ManyFiles", floor=2, weight=2), S("TestC13SlowFirst", floor=2, weight=2)],
    "thorough": [S("TestC13", 600, env={"VERIF_SCALE": "2E4"}, floor=150, timeout=3400) for _ in range(4)]
             + [S("TestC13", 60, env={"VERIF_SCALE": "2E4", "VERIF_RACE_BIN": 1}, floor=20, weight=2, timeout=3400), S("TestC13", 40, env={"VERIF_SCALE": "2E4", "VERIF_RACE_BIN": 1, "VERIF_WORKERS": 1, "VERIF_MINFILES": 3}, floor=10, weight=2, timeout=3400)]
             + [S("TestC13", 8, env={"VERIF_SCALE": "1E6"}, floor=3, weight=3, timeout=3400) for _ in range(2)]
             + [S("TestC13", 5, env={"VERIF_SCALE": "1E6", "VERIF_WORKERS": w, "VERIF_MINFILES": 3}, floor=2, weight=2, timeout=3400) for w in (1, 2)]
             + [S("TestC13", 3, env={"VERIF_SCALE": "1E6", "VERIF_WORKERS": 1, "VERIF_MINFILES": 2, "VERIF_RACE_BIN": 1}, floor=1, weight=2, timeout=3400)]
             + [S("TestC13", 25, env={"VERIF_SCALE": "1E8"}, floor=8, weight=2, timeout=3400) for _ in range(2)]
             + [S("TestC13", 6, env={"VERIF_SCALE": "1E8", "VERIF_WORKERS": 1, "VERIF_MINFILES": 2, "VERIF_RACE_BIN": 1}, floor=2, weight=2, timeout=3400), S("TestC13", 3, env={"VERIF_SCALE": "1E8hdr"}, floor=1),
                S("TestC13ManyFiles", floor=2, weight=2, env={"VERIF_FILES": 3000}, timeout=3400), S("TestC13SlowFirst", floor=2, weight=2, timeout=3400)],
    "assumptions": ["the 10^8 scale is not run end to end (linear complexity m=5000 on 10^8 bits costs ~20 min per file): its worker is driven on short files, its header selection on sparse files",
                    "file names with commas/newlines are outside the property (the CSV would be unparseable)", "the expected value is by definition the library's exported function (the report is under test, not the statistic)",
                    "schedules of worker / writer / walker goroutines are sampled (worker counts, GOMAXPROCS, pinned 'one worker, several files' shards) and additionally observed by race-detector builds of the binary and of the shim"],
}

RULES["C20"] = ("runs of the built rdgen binary from a fresh scratch working directory: s in 1..40 (300 thorough), n in {20000, 10^6, 8*k for k in 1..10000} (two 10^8 runs in thorough; three deterministic runs with 1000..3000 files (x5 thorough) under the usual descriptor limit of 1024), output directory absent (documented default target/data) / relative / reused (a quarter of the cases first run rdgen into the same directory with another s and n: the files must end up with exactly the new size) / "
                "./x/b/c not existing / absolute / pre-existing with foreign files / path with '..'; the requested directory may already exist as a symbolic link to a directory; a third of the directory names contain spaces, '%', dots, dashes, '+=,@#~' or non-ASCII characters; NumCPU (= writer goroutines) 1, 3 or 16 via taskset, GOMAXPROCS 0/1/2. oracle: exit 0; a census of the whole scratch directory finds exactly random0.bin..random(s-1).bin "
                "in the requested directory (foreign files untouched, nothing anywhere else), each n/8 bytes, pairwise different and not all-zero when n >= 128; for n in {20000,10^6,10^8} the detector's counting pass (toBeTestFileNum through the shim) "
                "reports (s, n). non-trivial: -o given and s > 1. distinct: hash of the case JSON.")
PROPS["C20"] = {
    "level": "exploration",
    "need": ["rdgen", "shim"],
    "quick": shards(6, "TestC20", 60, floor=15) + [S("TestC20Many", floor=3)],
    "thorough": shards(8, "TestC20", 600, floor=150, timeout=3400) + [S("TestC20Big", floor=1), S("TestC20Many", floor=3, env={"VERIF_SCALE_S": 5}, timeout=3400)],
    "assumptions": ["directory permission bits (MkdirAll(..., 0600)) are invisible when running as root and are not asserted",
                    "contents come from crypto/rand: equality of two files or an all-zero file is treated as impossible for n >= 128"],
}
