module verif/harness

go 1.23

require (
	github.com/Trisia/randomness v0.0.0
	pgregory.net/rapid v1.3.0
)

replace github.com/Trisia/randomness => /repo
