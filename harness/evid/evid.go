// Package evid records what a shard actually explored and writes it as a
// fragment that the driver merges into /verif/evidence/<id>.json.
package evid

import (
	"encoding/binary"
	"encoding/json"
	"hash/fnv"
	"os"
	"sort"
	"sync"
)

// Failure is one property failure observed by this shard.
type Failure struct {
	Key    string `json:"key"`
	Msg    string `json:"msg"`
	Replay string `json:"replay,omitempty"`
	Known  bool   `json:"known"`
}

// Recorder accumulates counters for one property in one process.
type Recorder struct {
	mu          sync.Mutex
	Property    string
	evaluations int
	shrinkRuns  int
	skipped     map[string]int
	excluded    int
	nontrivial  map[uint64]struct{}
	classes     map[string]int
	samples     []json.RawMessage
	sampleSeen  map[string]bool
	failures    []Failure
	failed      bool
	notes       map[string]float64
	MaxSamples  int
}

func New(property string) *Recorder {
	return &Recorder{Property: property, skipped: map[string]int{}, nontrivial: map[uint64]struct{}{},
		classes: map[string]int{}, sampleSeen: map[string]bool{}, notes: map[string]float64{}, MaxSamples: 6}
}

func hashBytes(b []byte) uint64 {
	h := fnv.New64a()
	h.Write(b)
	return h.Sum64()
}

// Observe records one executed case. caseJSON identifies the case (distinctness).
func (r *Recorder) Observe(caseJSON []byte, nontrivial bool, classes []string) {
	r.mu.Lock()
	defer r.mu.Unlock()
	if r.failed {
		r.shrinkRuns++
		return
	}
	r.evaluations++
	for _, c := range classes {
		r.classes[c]++
	}
	if nontrivial {
		r.nontrivial[hashBytes(caseJSON)] = struct{}{}
		// keep a few samples, at most one per first class label
		label := ""
		if len(classes) > 0 {
			label = classes[0]
		}
		if len(r.samples) < r.MaxSamples && !r.sampleSeen[label] {
			r.sampleSeen[label] = true
			s := caseJSON
			if len(s) > 1500 {
				t, _ := json.Marshal(string(s[:1500]) + "...(truncated)")
				s = t
			}
			r.samples = append(r.samples, json.RawMessage(append([]byte{}, s...)))
		}
	}
}

// Skip records a generated case that was not evaluated (stated reason).
func (r *Recorder) Skip(reason string) {
	r.mu.Lock()
	r.skipped[reason]++
	r.mu.Unlock()
}

// Excluded counts cases skipped because they match a known finding.
func (r *Recorder) Excluded() {
	r.mu.Lock()
	r.excluded++
	r.mu.Unlock()
}

// Class adds to a class counter outside Observe.
func (r *Recorder) Class(name string, n int) {
	r.mu.Lock()
	r.classes[name] += n
	r.mu.Unlock()
}

// Max keeps the maximum of a named measurement (e.g. worst deviation seen).
func (r *Recorder) Max(name string, v float64) {
	if v != v || v > 1e300 { // NaN / +Inf are not representable in JSON
		v = 1e300
	}
	r.mu.Lock()
	if old, ok := r.notes[name]; !ok || v > old {
		r.notes[name] = v
	}
	r.mu.Unlock()
}

// Fail records a failure; afterwards executions count as shrink runs.
func (r *Recorder) Fail(f Failure) {
	r.mu.Lock()
	defer r.mu.Unlock()
	if !f.Known {
		r.failed = true
	}
	for i := range r.failures {
		if r.failures[i].Key == f.Key && r.failures[i].Known == f.Known {
			r.failures[i] = f // keep the latest (most shrunk)
			return
		}
	}
	r.failures = append(r.failures, f)
}

type fragment struct {
	Property    string             `json:"property"`
	Evaluations int                `json:"evaluations"`
	ShrinkRuns  int                `json:"shrink_runs"`
	Skipped     map[string]int     `json:"skipped"`
	Excluded    int                `json:"excluded_known"`
	Classes     map[string]int     `json:"classes"`
	Samples     []json.RawMessage  `json:"samples"`
	Failures    []Failure          `json:"failures"`
	Notes       map[string]float64 `json:"max"`
	HashFile    string             `json:"hash_file"`
	NHashes     int                `json:"n_hashes"`
}

// Flush writes <path> (JSON) and <path>.hashes (little-endian uint64 list).
func (r *Recorder) Flush(path string) error {
	if path == "" {
		return nil
	}
	r.mu.Lock()
	defer r.mu.Unlock()
	hs := make([]uint64, 0, len(r.nontrivial))
	for h := range r.nontrivial {
		hs = append(hs, h)
	}
	sort.Slice(hs, func(i, j int) bool { return hs[i] < hs[j] })
	buf := make([]byte, 8*len(hs))
	for i, h := range hs {
		binary.LittleEndian.PutUint64(buf[8*i:], h)
	}
	if err := os.WriteFile(path+".hashes", buf, 0o644); err != nil {
		return err
	}
	fr := fragment{Property: r.Property, Evaluations: r.evaluations, ShrinkRuns: r.shrinkRuns, Skipped: r.skipped,
		Excluded: r.excluded, Classes: r.classes, Samples: r.samples, Failures: r.failures, Notes: r.notes,
		HashFile: path + ".hashes", NHashes: len(hs)}
	if fr.Samples == nil {
		fr.Samples = []json.RawMessage{}
	}
	if fr.Failures == nil {
		fr.Failures = []Failure{}
	}
	b, err := json.MarshalIndent(fr, "", " ")
	if err != nil {
		return err
	}
	return os.WriteFile(path, b, 0o644)
}
