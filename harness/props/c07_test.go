package props

import (
	"os"
	"strings"
	"testing"

	"pgregory.net/rapid"

	"verif/harness/gen"
)

// C07: factory / power-on / periodic verdicts equal the GM/T decision rule.

func checkC07(c streamCase) (Outcome, error) {
	w := c.wf()
	stream := c.stream()
	d := modelDecision(w, stream)
	nt, bcls := atBoundary(d)
	out := Outcome{NonTrivial: nt, Classes: append([]string{"workflow:" + c.Workflow, "target:" + c.Target}, bcls...)}
	if d.Verdict {
		out.Classes = append(out.Classes, "model:true")
	} else {
		out.Classes = append(out.Classes, "model:false")
	}
	if c.Trailing > 0 {
		out.Classes = append(out.Classes, "trailing-bytes")
	}
	if undecidable(d) {
		return Outcome{Skip: "uniformity P within 1e-9 of 1e-4"}, nil
	}
	c.runPrior(stream, &out) // history: an earlier detection in this process ran dry after PriorFail bytes of the same stream
	src, done := openSource(c, stream)
	v, err := w.Seq(src)
	done()
	if c.Source != "" {
		out.Classes = append(out.Classes, "source:"+c.Source)
	}
	if e := compareWithModel(c.Workflow+" detection", v, err, d); e != nil {
		return out, e
	}
	if c.Trailing > 0 && w.SampleBytes <= 2500 {
		// the same stream without the trailing bytes must give the same outcome
		v2, err2 := w.Seq(gen.NewReader(stream[:w.S*w.SampleBytes]))
		if v2 != v || namedItem(err2) != namedItem(err) {
			return out, violation("trailing", "%s: outcome depends on bytes beyond the %d samples: (%v,%v) with %d trailing bytes, (%v,%v) without",
				c.Workflow, w.S, v, err, c.Trailing, v2, err2)
		}
	}
	return out, nil
}

func c07Workflow() string {
	switch mode {
	case "factory", "poweron", "period":
		return mode
	}
	return "period"
}

func genC07(t *rapid.T) streamCase {
	wn := c07Workflow()
	targets := []string{"passcount", "passcount", "uniformity", "uniformity", "two-items", "mixed", "half", "random", "allpass", "replayed"}
	if wn == "period" {
		targets = append(targets, "lfsr")
	}
	if v := os.Getenv("VERIF_TARGETS"); v != "" {
		targets = strings.Split(v, ",")
	}
	c := drawStream(t, wn, targets)
	drawPrior(t, &c)
	return c
}

func TestC07(t *testing.T) { runProp(t, "C07", genC07, checkC07) }
