package props

import (
	"math"

	rn "github.com/Trisia/randomness"
)

// The fifteen tests in the standard's numbering, with their entry points.
// vals = {P, Q, P2, Q2}; P2/Q2 are NaN for tests with a single P-value.

type vals [4]float64

var nan = math.NaN()

func v2(p, q float64) vals { return vals{p, q, nan, nan} }

func sameBits(a, b vals) bool {
	for i := range a {
		if math.IsNaN(a[i]) && math.IsNaN(b[i]) {
			continue
		}
		if math.Float64bits(a[i]) != math.Float64bits(b[i]) {
			return false
		}
	}
	return true
}

type testDef struct {
	Idx      int
	Key      string
	Params   []int // documented parameter values (bool parameters: 1 = true)
	Default  int   // the 10^6-bit default used by the registry runner (-1: automatic)
	MinBits  int
	TwoSided bool
	Bytes    func(data []byte, p int) vals
	Bits     func(bits []bool, p int) vals
	Wrapper  func(bits []bool, p int) (vals, bool) // the XxxTest(bits) convenience wrapper, if it exists for p
	Runner   rn.TestFunc
}

func b(p int) bool { return p != 0 }

var tests = []testDef{
	{Idx: 0, Key: "monobit", Params: []int{0}, MinBits: 100, TwoSided: true,
		Bytes:  func(d []byte, _ int) vals { return v2(rn.MonoBitFrequencyTestBytes(d)) },
		Bits:   func(e []bool, _ int) vals { return v2(rn.MonoBitFrequencyTest(e)) },
		Runner: rn.MonoBitFrequency},
	{Idx: 1, Key: "block", Params: []int{-1, 10, 100, 1000, 10000, 128, 37}, Default: -1, MinBits: 100,
		Bytes: func(d []byte, m int) vals {
			if m < 0 {
				m = autoM(len(d) * 8)
			}
			return v2(rn.FrequencyWithinBlockTestBytes(d, m))
		},
		Bits: func(e []bool, m int) vals {
			if m < 0 {
				m = autoM(len(e))
			}
			return v2(rn.FrequencyWithinBlockProto(e, m))
		},
		Wrapper: func(e []bool, m int) (vals, bool) {
			if m < 0 {
				return v2(rn.FrequencyWithinBlockTest(e)), true
			}
			return vals{}, false
		},
		Runner: rn.FrequencyWithinBlock},
	{Idx: 2, Key: "poker", Params: []int{2, 4, 8}, Default: 8, MinBits: 100,
		Bytes: func(d []byte, m int) vals { return v2(rn.PokerTestBytes(d, m)) },
		Bits:  func(e []bool, m int) vals { return v2(rn.PokerProto(e, m)) },
		Wrapper: func(e []bool, m int) (vals, bool) {
			if m == 8 {
				return v2(rn.PokerTest(e)), true
			}
			return vals{}, false
		},
		Runner: rn.Poker},
	{Idx: 3, Key: "overlap", Params: []int{2, 3, 5, 7}, Default: 5, MinBits: 100,
		Bytes: func(d []byte, m int) vals {
			p1, p2, q1, q2 := rn.OverlappingTemplateMatchingTestBytes(d, m)
			return vals{p1, q1, p2, q2}
		},
		Bits: func(e []bool, m int) vals {
			p1, p2, q1, q2 := rn.OverlappingTemplateMatchingProto(e, m)
			return vals{p1, q1, p2, q2}
		},
		Wrapper: func(e []bool, m int) (vals, bool) {
			if m == 5 {
				p1, p2, q1, q2 := rn.OverlappingTemplateMatchingTest(e)
				return vals{p1, q1, p2, q2}, true
			}
			return vals{}, false
		},
		Runner: rn.OverlappingTemplateMatching},
	{Idx: 4, Key: "runs", Params: []int{0}, MinBits: 100, TwoSided: true,
		Bytes:  func(d []byte, _ int) vals { return v2(rn.RunsTestBytes(d)) },
		Bits:   func(e []bool, _ int) vals { return v2(rn.RunsTest(e)) },
		Runner: rn.Runs},
	{Idx: 5, Key: "runsdist", Params: []int{0}, MinBits: 100,
		Bytes:  func(d []byte, _ int) vals { return v2(rn.RunsDistributionTestBytes(d)) },
		Bits:   func(e []bool, _ int) vals { return v2(rn.RunsDistributionTest(e)) },
		Runner: rn.RunsDistribution},
	{Idx: 6, Key: "longest", Params: []int{1, 0}, Default: 1, MinBits: 128,
		Bytes:   func(d []byte, p int) vals { return v2(rn.LongestRunOfOnesInABlockTestBytes(d, b(p))) },
		Bits:    func(e []bool, p int) vals { return v2(rn.LongestRunOfOnesInABlockProto(e, b(p))) },
		Wrapper: func(e []bool, p int) (vals, bool) { return v2(rn.LongestRunOfOnesInABlockTest(e, b(p))), true },
		Runner:  rn.LongestRunOfOnesInABlock},
	{Idx: 7, Key: "binderiv", Params: []int{3, 7, 15}, Default: 7, MinBits: 100, TwoSided: true,
		Bytes:   func(d []byte, k int) vals { return v2(rn.BinaryDerivativeTestBytes(d, k)) },
		Bits:    func(e []bool, k int) vals { return v2(rn.BinaryDerivativeProto(e, k)) },
		Wrapper: func(e []bool, k int) (vals, bool) { return v2(rn.BinaryDerivativeTest(e, k)), true },
		Runner:  rn.BinaryDerivative},
	{Idx: 8, Key: "autocorr", Params: []int{1, 2, 8, 16, 32}, Default: 16, MinBits: 100, TwoSided: true,
		Bytes:   func(d []byte, k int) vals { return v2(rn.AutocorrelationTestBytes(d, k)) },
		Bits:    func(e []bool, k int) vals { return v2(rn.AutocorrelationProto(e, k)) },
		Wrapper: func(e []bool, k int) (vals, bool) { return v2(rn.AutocorrelationTest(e, k)), true },
		Runner:  rn.Autocorrelation},
	{Idx: 9, Key: "rank", Params: []int{32}, Default: 32, MinBits: 1024,
		Bytes:   func(d []byte, _ int) vals { return v2(rn.MatrixRankTestBytes(d, 32, 32)) },
		Bits:    func(e []bool, _ int) vals { return v2(rn.MatrixRankProto(e, 32, 32)) },
		Wrapper: func(e []bool, _ int) (vals, bool) { return v2(rn.MatrixRankTest(e)), true },
		Runner:  rn.MatrixRank},
	{Idx: 10, Key: "cusum", Params: []int{1, 0}, Default: 1, MinBits: 100,
		Bytes:  func(d []byte, p int) vals { return v2(rn.CumulativeTestBytes(d, b(p))) },
		Bits:   func(e []bool, p int) vals { return v2(rn.CumulativeTest(e, b(p))) },
		Runner: rn.Cumulative},
	{Idx: 11, Key: "apen", Params: []int{2, 5, 7}, Default: 5, MinBits: 100,
		Bytes: func(d []byte, m int) vals { return v2(rn.ApproximateEntropyTestBytes(d, m)) },
		Bits:  func(e []bool, m int) vals { return v2(rn.ApproximateEntropyProto(e, m)) },
		Wrapper: func(e []bool, m int) (vals, bool) {
			if m == 5 {
				return v2(rn.ApproximateEntropyTest(e)), true
			}
			return vals{}, false
		},
		Runner: rn.ApproximateEntropy},
	{Idx: 12, Key: "lincomp", Params: []int{500, 1000, 5000}, Default: 500, MinBits: 500,
		Bytes: func(d []byte, m int) vals { return v2(rn.LinearComplexityTestBytes(d, m)) },
		Bits:  func(e []bool, m int) vals { return v2(rn.LinearComplexityProto(e, m)) },
		Wrapper: func(e []bool, m int) (vals, bool) {
			if m == 500 {
				return v2(rn.LinearComplexityTest(e)), true
			}
			return vals{}, false
		},
		Runner: rn.LinearComplexity},
	{Idx: 13, Key: "maurer", Params: []int{0}, MinBits: 7 * 1281, TwoSided: true,
		Bytes:  func(d []byte, _ int) vals { return v2(rn.MaurerUniversalTestBytes(d)) },
		Bits:   func(e []bool, _ int) vals { return v2(rn.MaurerUniversalTest(e)) },
		Runner: rn.MaurerUniversal},
	{Idx: 14, Key: "dft", Params: []int{0}, MinBits: 100, TwoSided: true,
		Bytes:  func(d []byte, _ int) vals { return v2(rn.DiscreteFourierTransformTestBytes(d)) },
		Bits:   func(e []bool, _ int) vals { return v2(rn.DiscreteFourierTransformTest(e)) },
		Runner: rn.DiscreteFourierTransform},
}

func autoM(n int) int {
	switch {
	case n < 1000:
		return 10
	case n < 10000:
		return 100
	case n < 1000000:
		return 1000
	case n < 100000000:
		return 10000
	}
	return 1000000
}

func resultVals(r *rn.TestResult, idx int) vals {
	if idx == 3 {
		return vals{r.P, r.Q, r.P2, r.Q2}
	}
	return v2(r.P, r.Q)
}

// minBitsFor returns the smallest admissible length for test t with parameter p.
func minBitsFor(t testDef, p int) int {
	n := t.MinBits
	if t.Key == "lincomp" && p > n {
		n = p
	}
	if t.Key == "block" && p > n {
		n = p
	}
	return n
}
