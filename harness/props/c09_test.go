package props

import (
	"fmt"
	"io"
	"runtime"
	"testing"
	"time"

	"github.com/Trisia/randomness/detect"
	"pgregory.net/rapid"

	"verif/harness/gen"
)

// C09: a failing source yields a prompt (false, error); never a hang, never a pass, nobody left blocked.

type c09Case struct {
	Workflow   string `json:"workflow"` // factory | poweron | period | single
	Fast       bool   `json:"fast,omitempty"`
	NumByte    int    `json:"num_byte,omitempty"` // single
	Offset     int    `json:"offset"`
	Kind       string `json:"kind"`
	Seed       uint64 `json:"seed"`
	Delays     []int  `json:"delays,omitempty"`
	Procs      int    `json:"gomaxprocs,omitempty"`
	SlowFailMs int    `json:"slow_fail_ms,omitempty"` // the Read that reports the failure takes this long to return
}

func (c c09Case) required() (total, sample int) {
	if c.Workflow == "single" {
		return c.NumByte, c.NumByte
	}
	w := workflows[c.Workflow]
	return w.S * w.SampleBytes, w.SampleBytes
}

func checkC09(c c09Case) (Outcome, error) {
	total, sample := c.required()
	name := c.Workflow
	if c.Fast {
		name += "-fast"
	}
	out := Outcome{Classes: []string{"workflow:" + name, "kind:" + c.Kind}}
	if c.Offset < 0 || c.Offset >= total {
		return Outcome{Skip: "fault offset outside the required bytes"}, nil
	}
	switch {
	case c.Offset == 0:
		out.Classes = append(out.Classes, "offset:0")
	case c.Offset%sample == 0:
		out.Classes = append(out.Classes, "offset:on-sample-boundary")
	case c.Offset >= total-sample:
		out.Classes = append(out.Classes, "offset:in-last-sample")
	default:
		out.Classes = append(out.Classes, "offset:inside-a-sample")
	}
	out.NonTrivial = c.Offset >= sample || (c.Workflow == "single" && c.Offset > 0)
	// stream content: PRNG bytes; more than required so that a transient failure can be followed by data
	var data []byte
	if c.Workflow == "single" {
		data = sampleBytes(c.Seed, total+sample)
	} else {
		// samples that pass every item (from the pool): if the workflow overlooked the failure it would answer (true, nil)
		p := getPool(sample)
		r0 := gen.NewRng(c.Seed)
		for len(data) < total+sample {
			data = append(data, sampleBytes(p.Entries[p.allPass[r0.Intn(len(p.allPass))]].Seed, sample)...)
		}
	}
	r := gen.NewReader(data)
	r.Fault, r.Kind, r.Delays = c.Offset, c.Kind, c.Delays
	r.FaultDelay = time.Duration(c.SlowFailMs) * time.Millisecond
	if c.SlowFailMs > 0 {
		out.Classes = append(out.Classes, "slow-failing-read")
	}
	if c.Procs > 0 {
		old := runtime.GOMAXPROCS(c.Procs)
		defer runtime.GOMAXPROCS(old)
	}
	var fn func() (bool, error)
	if c.Workflow == "single" {
		fn = func() (bool, error) { return detect.SingleDetect(r, c.NumByte) }
	} else {
		w := workflows[c.Workflow]
		if c.Fast {
			fn = func() (bool, error) { return w.Fast(r) }
		} else {
			fn = func() (bool, error) { return w.Seq(r) }
		}
	}
	// generous wall-clock guard (only ever "inconclusive"): 20x a fault-free run
	limit := 60*time.Second + 3*time.Duration(c.SlowFailMs)*time.Millisecond
	if sample > 2500 {
		limit = 40 * time.Minute
	}
	res := callWatchedProbe(fn, limit, func() bool { return r.FailedReads() > 1000000 })
	what := fmt.Sprintf("%s with source failing (%s) at byte %d of %d", name, c.Kind, c.Offset, total)
	switch {
	case res.Hung:
		return out, violation("hang", "%s: never returns - every library goroutine is parked and nothing can wake them:\n%s", what, clip(res.Dump, 2500))
	case res.Spinning:
		return out, violation("livelock", "%s: does not return - it has retried the failing source more than 10^6 times and is still reading", what)
	case res.Slow:
		return Outcome{Skip: "INCONCLUSIVE wall-clock guard"}, nil
	case res.Panic != nil:
		return out, violation("panic", "%s: panic %v", what, res.Panic)
	}
	if r.Faulted == 0 {
		return Outcome{Skip: "the failure was never observed by the workflow"}, nil
	}
	if res.Verdict {
		return out, violation("pass-on-failure", "%s: returned true", what)
	}
	if res.Err == nil {
		return out, violation("nil-error", "%s: returned (false, nil)", what)
	}
	if res.Leaked > 0 {
		return out, violation("leak", "%s: returned (false, %v) but left %d goroutine(s) blocked behind:\n%s", what, res.Err, res.Leaked, clip(res.LeakDump, 2500))
	}
	return out, nil
}

func clip(s string, n int) string {
	if len(s) > n {
		return s[:n] + "..."
	}
	return s
}

var _ = io.EOF

func c09Offsets(t *rapid.T, total, sample int, cheapOnly bool) int {
	if cheapOnly { // 10^6-bit workflows: only offsets that cost at most about one sample
		return rapid.SampledFrom([]int{0, 1, sample / 2, sample - 1, sample, sample + 1}).Draw(t, "offset")
	}
	switch rapid.IntRange(0, 4).Draw(t, "oclass") {
	case 0:
		return rapid.IntRange(0, 2).Draw(t, "first")
	case 1:
		return total - 1 - rapid.IntRange(0, 2).Draw(t, "last")
	case 2:
		b := rapid.IntRange(1, total/sample-1).Draw(t, "boundary") * sample
		return b + rapid.IntRange(-1, 1).Draw(t, "d")
	default:
		return rapid.IntRange(0, total-1).Draw(t, "offset")
	}
}

func genC09(t *rapid.T) c09Case {
	c := c09Case{Kind: rapid.SampledFrom(gen.FaultKinds).Draw(t, "kind"), Seed: rapid.Uint64().Draw(t, "seed")}
	switch mode {
	case "factory", "poweron":
		c.Workflow = mode
		c.Fast = rapid.Bool().Draw(t, "fast")
		w := workflows[mode]
		c.Offset = c09Offsets(t, w.S*w.SampleBytes, w.SampleBytes, !thorough() || rapid.IntRange(0, 9).Draw(t, "deep") != 0)
		if c.Kind == gen.FaultTransient && !c.Fast {
			// fine: the sequential variant returns at once
		}
	case "single":
		c.Workflow = "single"
		c.NumByte = rapid.SampledFrom([]int{16, 40, 1280, 4096}).Draw(t, "numbyte")
		if rapid.Bool().Draw(t, "anylen") {
			c.NumByte = rapid.IntRange(1, 3000).Draw(t, "numbyte")
		}
		c.Offset = rapid.IntRange(0, c.NumByte-1).Draw(t, "offset")
	default:
		c.Workflow = "period"
		c.Fast = rapid.Bool().Draw(t, "fast")
		c.Offset = c09Offsets(t, 50000, 2500, false)
	}
	if c.Fast {
		c.Delays = drawDelays(t)
		c.Procs = rapid.SampledFrom([]int{1, 2, 4, 16}).Draw(t, "gomaxprocs")
	}
	return c
}

func TestC09(t *testing.T) { runPropJ(t, "C09", genC09, checkC09, true) }

// TestC09Enum: fault enumeration. SingleDetect: every offset for numByte in {16,40,1280} x every kind.
// Periodic workflows (sequential and parallel): every sample boundary -1/0/+1, the first and last three offsets x every kind.
func TestC09Enum(t *testing.T) {
	var cases []c09Case
	part, parts := envInt("VERIF_PART", 0), envInt("VERIF_PARTS", 1)
	k := 0
	add := func(c c09Case) {
		if k%parts == part {
			cases = append(cases, c)
		}
		k++
	}
	if mode == "single" || mode == "" {
		for _, nb := range []int{16, 40, 1280} {
			for off := 0; off < nb; off++ {
				for _, kind := range gen.FaultKinds {
					add(c09Case{Workflow: "single", NumByte: nb, Offset: off, Kind: kind, Seed: uint64(nb)})
				}
			}
		}
	}
	if mode == "period" || mode == "" {
		var offs []int
		for b := 0; b <= 20; b++ {
			for d := -1; d <= 1; d++ {
				o := b*2500 + d
				if o >= 0 && o < 50000 {
					offs = append(offs, o)
				}
			}
		}
		offs = append(offs, 2, 49997, 49998, 1250, 26000)
		for _, fast := range []bool{false, true} {
			for _, o := range offs {
				for _, kind := range gen.FaultKinds {
					c := c09Case{Workflow: "period", Fast: fast, Offset: o, Kind: kind, Seed: uint64(o)}
					if fast {
						c.Procs = []int{1, 2, 4, 16}[o%4]
					}
					add(c)
				}
			}
		}
	}
	if mode == "big" {
		for _, wn := range []string{"poweron", "factory"} {
			for _, fast := range []bool{false, true} {
				for _, o := range []int{0, 1, 62500, 124999, 125000, 125001} {
					for _, kind := range gen.FaultKinds {
						add(c09Case{Workflow: wn, Fast: fast, Offset: o, Kind: kind, Seed: uint64(o)})
					}
				}
			}
		}
	}
	enumerate(t, "C09", cases, checkC09)
}

// TestC09SlowFail: the Read that reports the failure hangs for 35 s before it returns (a device that times out); the workflow
// must still end with (false, error) and leave nobody behind once that Read has returned. Deterministic.
func TestC09SlowFail(t *testing.T) {
	cases := []c09Case{{Workflow: "period", Fast: true, Offset: 2501, Kind: gen.FaultCustom, Seed: 5, SlowFailMs: 35000},
		{Workflow: "single", NumByte: 64, Offset: 10, Kind: gen.FaultOSError, Seed: 6, SlowFailMs: 35000}}
	if thorough() {
		cases = append(cases, c09Case{Workflow: "period", Offset: 1, Kind: gen.FaultUnexpected, Seed: 7, SlowFailMs: 35000},
			c09Case{Workflow: "poweron", Fast: true, Offset: 1, Kind: gen.FaultCustom, Seed: 8, SlowFailMs: 35000},
			c09Case{Workflow: "factory", Offset: 1, Kind: gen.FaultOSError, Seed: 9, SlowFailMs: 35000})
	}
	enumerate(t, "C09", cases, checkC09)
}
