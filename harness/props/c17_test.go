package props

import (
	"fmt"
	"math"
	"testing"

	"pgregory.net/rapid"

	"verif/harness/gen"
)

// C17: tests respect the symmetries their definitions imply.

type c17Case struct {
	Test      int     `json:"test"`
	Param     int     `json:"param"`
	Transform string  `json:"transform"` // complement | reverse | rotate | blockperm
	Amount    int     `json:"amount,omitempty"`
	Seed      uint64  `json:"seed,omitempty"`
	Seq       gen.Seq `json:"seq"`
	Bytes     bool    `json:"bytes,omitempty"` // use the byte entry point (only when n is a multiple of 8)
}

var c17Allowed = map[string][]string{
	"monobit":  {"complement", "reverse"},
	"block":    {"complement", "blockperm"},
	"poker":    {"complement", "blockperm"},
	"overlap":  {"complement", "reverse", "rotate"},
	"runs":     {"complement", "reverse"},
	"runsdist": {"complement", "reverse"},
	"longest":  {"complement", "blockperm"},
	"binderiv": {"complement", "reverse"},
	"autocorr": {"complement", "reverse"},
	"rank":     {"blockperm"},
	"cusum":    {"complement", "reverse"},
	"apen":     {"complement", "reverse", "rotate"},
	"lincomp":  {"blockperm"},
	"maurer":   {"complement"},
	"dft":      {"complement"},
}

func blockLen(t testDef, p, n int) int {
	switch t.Key {
	case "block":
		if p < 0 {
			return autoM(n)
		}
		return p
	case "poker":
		return p
	case "longest":
		switch {
		case n < 6272:
			return 8
		case n < 750000:
			return 128
		}
		return 10000
	case "rank":
		return 1024
	case "lincomp":
		return p
	}
	return 0
}

func checkC17(c c17Case) (Outcome, error) {
	t := tests[c.Test]
	x := c.Seq.Expand()
	n := len(x)
	y := make([]bool, n)
	p2 := c.Param // parameter used on the transformed sequence
	flipQ := false
	switch c.Transform {
	case "complement":
		for i := range x {
			y[i] = !x[i]
		}
		if t.Key == "monobit" {
			flipQ = true
		}
		if t.Key == "longest" {
			p2 = 1 - c.Param
		}
	case "reverse":
		for i := range x {
			y[i] = x[n-1-i]
		}
		if t.Key == "cusum" {
			p2 = 1 - c.Param
		}
	case "rotate":
		r := ((c.Amount % n) + n) % n
		for i := range x {
			y[i] = x[(i+r)%n]
		}
	case "blockperm":
		m := blockLen(t, c.Param, n)
		N := n / m
		perm := make([]int, N)
		for i := range perm {
			perm[i] = i
		}
		r := gen.NewRng(c.Seed)
		for i := N - 1; i > 0; i-- {
			j := r.Intn(i + 1)
			perm[i], perm[j] = perm[j], perm[i]
		}
		for i := 0; i < N; i++ {
			copy(y[i*m:(i+1)*m], x[perm[i]*m:(perm[i]+1)*m])
		}
		for i := N * m; i < n; i++ { // rewrite the discarded tail
			y[i] = r.Uint64()&1 == 1
		}
	default:
		return Outcome{}, fmt.Errorf("bad transform")
	}
	same := true
	for i := range x {
		if x[i] != y[i] {
			same = false
			break
		}
	}
	a := t.Bits(x, c.Param)
	bv := t.Bits(y, p2)
	if c.Bytes && n%8 == 0 {
		a = t.Bytes(gen.Pack(x), c.Param)
		bv = t.Bytes(gen.Pack(y), p2)
	}
	out := Outcome{NonTrivial: !same && nontrivialP(a[0]), Classes: []string{"test:" + t.Key, "transform:" + c.Transform, "family:" + c.Seq.Family}}
	want := a
	if flipQ {
		want[1] = 1 - a[1]
	}
	worst := 0.0
	for i := range want {
		if math.IsNaN(want[i]) && math.IsNaN(bv[i]) {
			continue
		}
		d := math.Abs(want[i] - bv[i])
		if math.IsNaN(d) {
			d = math.Inf(1)
		}
		worst = math.Max(worst, d)
	}
	rec("C17").Max("worst_deviation", worst)
	rec("C17").Max("worst_deviation:"+t.Key+"/"+c.Transform, worst)
	// tolerance: 2e-8.  C01-C05 allow every result to deviate from the standard's value by 1e-8, and that value is exactly
	// invariant under the transformation, so two conforming results can differ by up to 2e-8; anything tighter asserts more
	// than the properties state.  (It used to be 1e-9 + 2e-15 n, chosen from the deviations I had measured; the thorough tier
	// then met a 458032-bit sequence with a single one: the standard's own formula for the runs test, evaluated in float64
	// by the library and by my reference alike, gives 0.99882105664 for x and 0.99882106067 for its complement - the
	// difference 2 n pi (1 - pi) - V_obs cancels catastrophically when pi is 1/n or 1 - 1/n.  DESIGN section 10, false alarms.)
	tol := 2e-8
	rec("C17").Max("worst_deviation_over_tolerance", worst/tol)
	if worst > tol {
		return out, violation(t.Key+"/"+c.Transform, "%s param=%d n=%d family=%s: f(x) = %v but f(%s x) = %v (param %d); expected equal%s within 2e-8",
			t.Key, c.Param, n, c.Seq.Family, a, c.Transform, bv, p2, map[bool]string{true: " with Q -> 1-Q", false: ""}[flipQ])
	}
	return out, nil
}

func genC17(t *rapid.T) c17Case {
	c := c17Case{Test: rapid.IntRange(0, 14).Draw(t, "test"), Seed: rapid.Uint64().Draw(t, "seed")}
	td := tests[c.Test]
	c.Param = rapid.SampledFrom(td.Params).Draw(t, "param")
	c.Transform = rapid.SampledFrom(c17Allowed[td.Key]).Draw(t, "transform")
	minN := max(100, minBitsFor(td, c.Param))
	n := drawLen(t, minN, []int{6272, 1000, 10000})
	if c.Transform == "blockperm" {
		// make sure there are several blocks and a non-empty tail most of the time
		m := blockLen(td, c.Param, n)
		if n < 3*m {
			n = 3*m + rapid.IntRange(0, m-1).Draw(t, "tail")
		}
	}
	if rapid.IntRange(0, 2).Draw(t, "bytes") == 0 {
		c.Bytes = true
		n = (n + 7) / 8 * 8 // round UP: rounding down took n = 100 to 96, below the runs-distribution minimum (my false alarm, see DESIGN section 10)
	}
	c.Seq = gen.DrawSeq(t, n, nil)
	if c.Transform == "rotate" {
		c.Amount = rapid.SampledFrom([]int{1, n - 1, n / 2, rapid.IntRange(0, n).Draw(t, "rot")}).Draw(t, "amount")
	}
	return c
}

func TestC17(t *testing.T) { runProp(t, "C17", genC17, checkC17) }

// TestC17Sweep: every (test, parameter, admissible transformation) at 20000 and 10^6 bits.
func TestC17Sweep(t *testing.T) {
	var cases []c17Case
	part, parts := envInt("VERIF_PART", 0), envInt("VERIF_PARTS", 1)
	k := 0
	for _, td := range tests {
		for _, p := range td.Params {
			for _, tr := range c17Allowed[td.Key] {
				for _, n := range []int{20000, 65537, 131075, 1000003} { // incl. one and three bits beyond a multiple of 2^16 (chunked implementations)
					if n < minBitsFor(td, p) {
						continue
					}
					if k%parts == part {
						cases = append(cases, c17Case{Test: td.Idx, Param: p, Transform: tr, Amount: n/3 + 1, Seed: uint64(k), Seq: gen.Seq{Family: "uniform", N: n, Seed: uint64(k + 1)}})
						if n > 100000 {
							cases = append(cases, c17Case{Test: td.Idx, Param: p, Transform: tr, Amount: n/3 + 1, Seed: uint64(k), Bytes: true, Seq: gen.Seq{Family: "uniform", N: 1000000, Seed: uint64(k + 2)}})
						}
					}
					k++
				}
			}
		}
	}
	enumerate(t, "C17", cases, checkC17)
}
