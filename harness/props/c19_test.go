package props

import (
	"fmt"
	"math"
	"math/cmplx"
	"runtime"
	"testing"

	"github.com/Trisia/randomness/fft"
	"pgregory.net/rapid"

	"verif/harness/gen"
	"verif/harness/ref"
)

// C19: fft package = DFT definition, inverse round trip, constructor and length validation.

type c19Case struct {
	Kind  string    `json:"kind"` // transform | new | mismatch
	Exp   int       `json:"exp,omitempty"`
	Input string    `json:"input,omitempty"` // impulse | tone | random | pm1 | explicit
	Pos   int       `json:"pos,omitempty"`
	Seed  uint64    `json:"seed,omitempty"`
	Vals  []float64 `json:"vals,omitempty"` // explicit: re,im pairs
	Arg   int       `json:"arg,omitempty"`  // constructor argument / wrong slice length
	Procs int       `json:"gomaxprocs,omitempty"`
}

func (c c19Case) vector() []complex128 {
	N := 1 << uint(c.Exp)
	x := make([]complex128, N)
	r := gen.NewRng(c.Seed)
	switch c.Input {
	case "impulse":
		x[c.Pos%N] = 1
	case "tone":
		for j := range x {
			x[j] = cmplx.Rect(1, 2*math.Pi*float64((j*(c.Pos%N))%N)/float64(N))
		}
	case "random":
		for j := range x {
			x[j] = complex(r.Float()*2-1, r.Float()*2-1)
		}
	case "pm1+i": // a +-1 vector, real everywhere except one entry (Pos) which gets an imaginary part
		for j := range x {
			x[j] = complex(float64(2*int(r.Uint64()&1)-1), 0)
		}
		x[c.Pos%N] += complex(0, 1)
	case "pm1":
		for j := range x {
			if r.Uint64()&1 == 1 {
				x[j] = 1
			} else {
				x[j] = -1
			}
		}
	case "explicit":
		for j := range x {
			if 2*j+1 < len(c.Vals) {
				x[j] = complex(c.Vals[2*j], c.Vals[2*j+1])
			}
		}
	}
	return x
}

func norm2(x []complex128) float64 {
	s := 0.0
	for _, v := range x {
		s += real(v)*real(v) + imag(v)*imag(v)
	}
	return math.Sqrt(s)
}

func checkC19(c c19Case) (out Outcome, err error) {
	if c.Procs > 0 {
		old := runtime.GOMAXPROCS(c.Procs)
		defer runtime.GOMAXPROCS(old)
	}
	switch c.Kind {
	case "new":
		out.Classes = []string{"new"}
		f, e := fft.New(c.Arg)
		switch {
		case c.Arg < 2 || c.Arg > 1<<27:
			out.Classes = append(out.Classes, "new/refused-range")
			out.NonTrivial = true
			if e == nil {
				return out, violation("new-accepts", "fft.New(%d) returned no error (N=%d); lengths below 2 or above 2^27 must be refused", c.Arg, f.N)
			}
		default:
			want := 1
			for want*2 <= c.Arg {
				want *= 2
			}
			out.NonTrivial = want != c.Arg
			if e != nil {
				return out, violation("new-refuses", "fft.New(%d) refused: %v", c.Arg, e)
			}
			if f.N != want {
				return out, violation("new-size", "fft.New(%d).N = %d, want the largest power of two not exceeding it, %d", c.Arg, f.N, want)
			}
			// the transformer must really be one for length `want`
			if want <= 1<<12 {
				x := make([]complex128, want)
				x[1%want] = 1
				y := f.Transform(append([]complex128{}, x...))
				for k := range y {
					w := cmplx.Rect(1, -2*math.Pi*float64(k%want)/float64(want))
					if want == 1 {
						w = 1
					}
					if cmplx.Abs(y[k]-w) > 1e-12 {
						return out, violation("new-plan", "fft.New(%d): transform of the unit impulse at 1 wrong at bin %d: %v want %v", c.Arg, k, y[k], w)
					}
				}
			}
		}
		return out, nil
	case "mismatch":
		out.Classes = []string{"mismatch"}
		out.NonTrivial = true
		N := 1 << uint(c.Exp)
		f, e := fft.New(N)
		if e != nil {
			return out, violation("new-refuses", "fft.New(%d) refused: %v", N, e)
		}
		for k := 0; k < 4; k++ {
			inverse := k&1 == 1
			x := make([]complex128, c.Arg)
			if k >= 2 { // the wrong-length slice is a window of a larger buffer (spare capacity beyond its length, as buf[:m] has)
				x = make([]complex128, c.Arg, max(c.Arg, N)+N)
			}
			for i := range x {
				x[i] = complex(float64(i+1), 0)
			}
			refused := func() (refused bool) {
				defer func() {
					if recover() != nil {
						refused = true
					}
				}()
				if inverse {
					f.Inverse(x)
				} else {
					f.Transform(x)
				}
				return false
			}()
			if !refused {
				return out, violation("mismatch-computed", "transformer for N=%d computed on a slice of length %d (inverse=%v) instead of refusing", N, c.Arg, inverse)
			}
			// a refused call must leave the transformer (and a new one for the same length) usable: unit impulse at 1 -> exp(-2 pi i k/N)
			if N <= 1<<16 {
				for _, g := range []fft.FFT{f, mustNew(N)} {
					imp := make([]complex128, N)
					imp[1%N] = 1
					y := g.Transform(imp)
					for _, kk := range []int{0, 1, N / 4, N / 2, N - 1} {
						w := cmplx.Exp(complex(0, -2*math.Pi*float64(kk)/float64(N)))
						if N == 1 {
							w = 1
						}
						if cmplx.Abs(y[kk]-w) > 1e-9 {
							return out, violation("after-refusal", "transformer for N=%d after a refused call on a slice of length %d (inverse=%v): impulse response wrong at bin %d: %v want %v", N, c.Arg, inverse, kk, y[kk], w)
						}
					}
				}
			}
		}
		return out, nil
	}
	// transform
	N := 1 << uint(c.Exp)
	x := c.vector()
	out.Classes = []string{"transform", "input:" + c.Input, fmt.Sprintf("N=2^%d", c.Exp)}
	out.NonTrivial = N >= 4 && !(c.Input == "impulse" && c.Pos%N == 0)
	f, e := fft.New(N)
	if e != nil {
		return out, violation("new-refuses", "fft.New(%d) refused: %v", N, e)
	}
	nrm := norm2(x)
	tol := 1e-12 * float64(max(c.Exp, 1)) * math.Max(nrm, 1e-300)
	y := f.Transform(append([]complex128{}, x...))
	if len(y) != N {
		return out, violation("transform-len", "Transform returned %d values for N=%d", len(y), N)
	}
	worst := 0.0
	bad := -1
	cmp := func(k int, want complex128) {
		d := cmplx.Abs(y[k] - want)
		if math.IsNaN(d) {
			d = math.Inf(1)
		}
		if d > worst {
			worst = d
			if d > tol {
				bad = k
			}
		}
	}
	switch {
	case N <= 4096:
		w := ref.NaiveDFT(x)
		for k := range w {
			cmp(k, w[k])
		}
	case c.Input == "impulse":
		p := c.Pos % N
		step := 1
		if N > 1<<22 {
			step = 4099
		}
		for k := 0; k < N; k += step {
			cmp(k, cmplx.Rect(1, -2*math.Pi*float64(int64(p)*int64(k)%int64(N))/float64(N)))
		}
	case c.Input == "tone":
		for k := 0; k < N; k++ {
			if k == c.Pos%N {
				cmp(k, complex(float64(N), 0))
			} else {
				cmp(k, 0)
			}
		}
	default:
		r := gen.NewRng(c.Seed ^ 0x5555)
		for i := 0; i < 32; i++ {
			k := r.Intn(N)
			cmp(k, ref.DirectBin(x, k))
		}
		for _, k := range []int{0, 1, N / 2, N - 1} {
			cmp(k, ref.DirectBin(x, k))
		}
		// Parseval
		if ny := norm2(y); math.Abs(ny*ny-float64(N)*nrm*nrm) > 1e-10*float64(N)*nrm*nrm {
			return out, violation("parseval", "N=%d input=%s: |X|^2 = %g, N|x|^2 = %g", N, c.Input, ny*ny, float64(N)*nrm*nrm)
		}
	}
	rec("C19").Max("worst_forward_error_over_tolerance", worst/tol)
	if bad >= 0 {
		return out, violation("forward", "N=%d input=%s pos=%d: forward transform bin %d off by %.3g (tolerance %.3g = 1e-12*log2(N)*|x|)", N, c.Input, c.Pos, bad, worst, tol)
	}
	z := f.Inverse(append([]complex128{}, y...))
	wi := 0.0
	for j := range z {
		d := cmplx.Abs(z[j] - x[j])
		if math.IsNaN(d) {
			d = math.Inf(1)
		}
		wi = math.Max(wi, d)
	}
	rec("C19").Max("worst_roundtrip_error_over_tolerance", wi/tol)
	if wi > tol {
		return out, violation("inverse", "N=%d input=%s: Inverse(Transform(x)) differs from x by %.3g (tolerance %.3g)", N, c.Input, wi, tol)
	}
	return out, nil
}

func genC19(t *rapid.T) c19Case {
	switch rapid.IntRange(0, 9).Draw(t, "kind") {
	case 0, 1:
		var a int
		switch rapid.IntRange(0, 4).Draw(t, "argclass") {
		case 0:
			a = rapid.IntRange(-5, 70).Draw(t, "arg")
		case 1:
			a = rapid.IntRange(2, 70000).Draw(t, "arg")
		case 2:
			a = 1<<uint(rapid.IntRange(1, 20).Draw(t, "exp")) + rapid.IntRange(-1, 1).Draw(t, "d")
		case 3:
			a = rapid.SampledFrom([]int{1<<27 + 1, 1<<27 + 2, 1 << 28, 1 << 40, -1 << 40, math.MaxInt64, math.MinInt64, 0, 1, -1}).Draw(t, "arg")
		default:
			a = rapid.IntRange(2, 1<<22).Draw(t, "arg")
		}
		return c19Case{Kind: "new", Arg: a}
	case 2:
		e := rapid.IntRange(1, 12).Draw(t, "exp")
		N := 1 << uint(e)
		l := rapid.SampledFrom([]int{0, 1, N - 1, N + 1, 2 * N, N / 2, 3}).Draw(t, "len")
		if l == N {
			l = N + 1
		}
		return c19Case{Kind: "mismatch", Exp: e, Arg: l}
	}
	maxExp := 15
	if thorough() {
		maxExp = 20
	}
	e := rapid.IntRange(1, 12).Draw(t, "exp")
	if rapid.IntRange(0, 5).Draw(t, "big") == 0 {
		e = rapid.IntRange(13, maxExp).Draw(t, "exp")
	}
	N := 1 << uint(e)
	c := c19Case{Kind: "transform", Exp: e, Input: rapid.SampledFrom([]string{"impulse", "tone", "random", "random", "pm1", "pm1+i", "explicit"}).Draw(t, "input"),
		Procs: rapid.SampledFrom([]int{0, 0, 1, 2, 3, 5, 6, 7, 12, 16}).Draw(t, "gomaxprocs")}
	switch c.Input {
	case "pm1+i":
		c.Seed = rapid.Uint64().Draw(t, "seed")
		c.Pos = rapid.SampledFrom([]int{0, N - 1, N / 2, 1, rapid.IntRange(0, N-1).Draw(t, "anypos")}).Draw(t, "pos")
	case "impulse", "tone":
		c.Pos = rapid.IntRange(0, N-1).Draw(t, "pos")
	case "explicit":
		if N > 64 {
			c.Input = "random"
			c.Seed = rapid.Uint64().Draw(t, "seed")
		} else {
			c.Vals = rapid.SliceOfN(rapid.Float64Range(-4, 4), 2*N, 2*N).Draw(t, "vals")
		}
	default:
		c.Seed = rapid.Uint64().Draw(t, "seed")
	}
	return c
}

func TestC19(t *testing.T) { runProp(t, "C19", genC19, checkC19) }

// TestC19Sweep: for N <= 256 (quick: 64) impulses and tones at every position / frequency;
// every constructor argument in [-3, VERIF_HI].
func TestC19Sweep(t *testing.T) {
	var cases []c19Case
	maxE := 6
	if thorough() {
		maxE = 8
	}
	for e := 1; e <= maxE; e++ {
		for p := 0; p < 1<<uint(e); p++ {
			cases = append(cases, c19Case{Kind: "transform", Exp: e, Input: "impulse", Pos: p}, c19Case{Kind: "transform", Exp: e, Input: "tone", Pos: p})
		}
	}
	for a := -3; a <= envInt("VERIF_HI", 3000); a++ {
		cases = append(cases, c19Case{Kind: "new", Arg: a})
	}
	for _, a := range []int{1 << 27, 1<<27 - 1, 1<<27 + 1, 1 << 40} {
		cases = append(cases, c19Case{Kind: "new", Arg: a}) // 2^27 itself must be accepted (3 GB of tables, ~10 s)
	}
	if thorough() {
		// a full-size transform: unit impulse at a drawn position, analytic spectrum checked on every 4099-th bin + Parseval
		cases = append(cases, c19Case{Kind: "transform", Exp: 27, Input: "impulse", Pos: 1<<27 - 12345})
	}
	for e := 13; e <= 17; e++ {
		cases = append(cases, c19Case{Kind: "transform", Exp: e, Input: "random", Seed: uint64(e)}, c19Case{Kind: "transform", Exp: e, Input: "impulse", Pos: 1<<uint(e) - 3})
		for _, p := range []int{3, 5, 6, 7, 12} { // processor counts that are not powers of two
			cases = append(cases, c19Case{Kind: "transform", Exp: e, Input: "impulse", Pos: 1<<uint(e) - 1, Procs: p}, c19Case{Kind: "transform", Exp: e, Input: "pm1", Seed: uint64(p), Procs: p})
		}
	}
	// sizes above 2^20 (table-free code paths, chunked loops): random input, impulses at odd positions in the upper half
	for _, e := range []int{21, 22} {
		N := 1 << uint(e)
		cases = append(cases, c19Case{Kind: "transform", Exp: e, Input: "random", Seed: uint64(e)},
			c19Case{Kind: "transform", Exp: e, Input: "impulse", Pos: N/2 + 3}, c19Case{Kind: "transform", Exp: e, Input: "impulse", Pos: 3*N/4 + 1, Procs: 3},
			c19Case{Kind: "transform", Exp: e, Input: "pm1", Seed: uint64(e + 1), Procs: 5})
	}
	enumerate(t, "C19", cases, checkC19)
}

// TestC19FirstCall runs in a process without the hostile prelude: the refused constructor arguments are the very first
// library calls of the process (a constructor that memoises must not let an empty cache answer them).
func TestC19FirstCall(t *testing.T) {
	var cases []c19Case
	for _, a := range []int{0, 1, -1, 1<<27 + 1, 0, 1, 2, 0} {
		cases = append(cases, c19Case{Kind: "new", Arg: a})
	}
	enumerate(t, "C19", cases, checkC19)
}

func mustNew(n int) fft.FFT {
	f, err := fft.New(n)
	if err != nil {
		panic(err)
	}
	return f
}
