package props

import (
	"encoding/hex"
	"fmt"
	"io"
	"os"
	"testing"
	"time"

	"github.com/Trisia/randomness/detect"
	"pgregory.net/rapid"

	"verif/harness/gen"
)

// C14: stuck-at and short-cycle sources (period <= 64 bytes) are always rejected.

type c14Case struct {
	Workflow string `json:"workflow"` // factory | poweron | period | single
	Tile     string `json:"tile"`     // hex, 1..64 bytes
	TileKind string `json:"tile_kind"`
	NumByte  int    `json:"num_byte,omitempty"`
	Both     bool   `json:"both"`                          // run the parallel twin as well (after the sequential run did not crash)
	Prior    int    `json:"prior_healthy_bytes,omitempty"` // history: an earlier single-shot detection of this many bytes on a healthy source
	PriorWF  string `json:"prior_workflow,omitempty"`      // history for the workflows: which detection ran dry (after Prior zero bytes) earlier in this process ("" = the parallel twin)
	FileHdr  int    `json:"file_header_bytes,omitempty"`   // > 0: the source is an *os.File holding this many healthy bytes first and the repeating stream after them, positioned behind the healthy part
}

func checkC14(c c14Case) (Outcome, error) {
	tile, err := hex.DecodeString(c.Tile)
	if err != nil || len(tile) == 0 || len(tile) > 64 {
		return Outcome{Skip: "bad tile"}, nil
	}
	distinct := map[byte]bool{}
	for _, b := range tile {
		distinct[b] = true
	}
	out := Outcome{NonTrivial: len(distinct) >= 2 || c.Workflow == "single", Classes: []string{"workflow:" + c.Workflow, "tile:" + c.TileKind, fmt.Sprintf("period<=%d", bucket(len(tile)))}}
	var cleanup []func()
	defer func() {
		for _, f := range cleanup {
			f()
		}
	}()
	mk := func() io.Reader {
		if c.FileHdr > 0 && c.Workflow != "single" {
			w := workflows[c.Workflow]
			body := make([]byte, w.S*w.SampleBytes+64)
			for i := range body {
				body[i] = tile[i%len(tile)]
			}
			if f, err := os.CreateTemp(envOr("VERIF_SCRATCH", os.TempDir()), "c14-*.bin"); err == nil {
				_, _ = f.Write(sampleBytes(uint64(c.FileHdr), c.FileHdr))
				_, _ = f.Write(body)
				_, _ = f.Seek(int64(c.FileHdr), io.SeekStart)
				cleanup = append(cleanup, func() { f.Close(); os.Remove(f.Name()) })
				return f
			}
		}
		r := gen.NewReader(tile)
		r.Wrap = true
		return r
	}
	if c.FileHdr > 0 && c.Workflow != "single" {
		out.Classes = append(out.Classes, "source:os.File@offset")
	}
	if c.Workflow == "single" {
		if c.Prior > 0 {
			out.Classes = append(out.Classes, "after-a-healthy-call")
			_, _ = detect.SingleDetect(gen.NewReader(gen.NewRng(uint64(c.Prior)).Bytes(c.Prior)), c.Prior)
		}
		v, e := detect.SingleDetect(mk(), c.NumByte)
		if v || e != nil {
			// the property: verdict false with a non-nil error?  For the single-shot detection the
			// statement says "is rejected": verdict false.  A nil error is what the library returns
			// for a completed poker test; only the verdict is asserted here.
		}
		if v {
			return out, violation("single-accepts", "SingleDetect accepted %d bytes of 0x%s", c.NumByte, c.Tile)
		}
		return out, nil
	}
	w := workflows[c.Workflow]
	what := fmt.Sprintf("%s on a source repeating the %d-byte tile %s", c.Workflow, len(tile), c.Tile)
	if c.Prior > 0 {
		// history: an earlier detection in this process ended on a read error (a source that ran dry)
		name := c.PriorWF
		if name == "" {
			name = c.Workflow + "+fast"
		}
		out.Classes = append(out.Classes, "after-a-failed-call", "after-a-failed-call:"+name)
		if priorCall(name, make([]byte, c.Prior)) {
			return out, violation("hang", "%s: the preparatory %s call on a %d-byte source never returned", what, name, c.Prior)
		}
	}
	res := callWatched(func() (bool, error) { return w.Seq(mk()) }, 60*time.Minute)
	switch {
	case res.Panic != nil:
		return out, violation("panic", "%s: panic %v", what, res.Panic)
	case res.Hung || res.Slow:
		return Outcome{Skip: "INCONCLUSIVE sequential run did not finish"}, nil
	case res.Verdict:
		return out, violation("accepted", "%s: accepted (true, %v)", what, res.Err)
	case res.Err == nil:
		return out, violation("nil-error", "%s: (false, nil)", what)
	}
	if c.Both {
		out.Classes = append(out.Classes, "parallel-twin")
		res = callWatched(func() (bool, error) { return w.Fast(mk()) }, 60*time.Minute)
		switch {
		case res.Panic != nil:
			return out, violation("panic", "%s (parallel): panic %v", what, res.Panic)
		case res.Hung:
			return out, violation("hang", "%s (parallel): never returns:\n%s", what, clip(res.Dump, 2000))
		case res.Slow:
			return Outcome{Skip: "INCONCLUSIVE parallel run did not finish"}, nil
		case res.Verdict:
			return out, violation("accepted", "%s (parallel): accepted (true, %v)", what, res.Err)
		case res.Err == nil:
			return out, violation("nil-error", "%s (parallel): (false, nil)", what)
		}
	}
	return out, nil
}

func bucket(n int) int {
	for _, b := range []int{1, 2, 4, 8, 16, 32, 64} {
		if n <= b {
			return b
		}
	}
	return 64
}

func drawTile(t *rapid.T) (string, string) {
	kind := rapid.SampledFrom([]string{"constant", "uniform", "uniform", "sparse", "sparse", "structured", "explicit"}).Draw(t, "tilekind")
	if v := os.Getenv("VERIF_TILEKIND"); v != "" {
		kind = v
	}
	p := rapid.IntRange(2, 64).Draw(t, "period")
	tile := make([]byte, p)
	switch kind {
	case "constant":
		v := byte(rapid.IntRange(0, 255).Draw(t, "value"))
		tile = []byte{v}
		if rapid.Bool().Draw(t, "long") {
			tile = make([]byte, p)
			for i := range tile {
				tile[i] = v
			}
		}
	case "uniform":
		copy(tile, gen.NewRng(rapid.Uint64().Draw(t, "seed")).Bytes(p))
	case "sparse": // 1..3 set (or cleared) bits in the whole tile, at any bit position
		base := byte(0)
		if rapid.IntRange(0, 3).Draw(t, "inverted") == 0 {
			base = 0xff
		}
		for i := range tile {
			tile[i] = base
		}
		for k := rapid.IntRange(1, 3).Draw(t, "nbits"); k > 0; k-- {
			pos := rapid.IntRange(0, p*8-1).Draw(t, "bit")
			tile[pos/8] ^= 0x80 >> uint(pos%8)
		}
	case "structured":
		switch rapid.IntRange(0, 3).Draw(t, "shape") {
		case 0:
			for i := range tile {
				tile[i] = byte(i)
			}
		case 1:
			for i := range tile {
				tile[i] = []byte{0x55, 0xaa}[i%2]
			}
		case 2:
			for i := range tile {
				tile[i] = 1 << uint(i%8)
			}
		default:
			for i := range tile {
				tile[i] = byte(i * 37)
			}
		}
	case "explicit":
		p = rapid.IntRange(1, 8).Draw(t, "short")
		tile = rapid.SliceOfN(rapid.Byte(), p, p).Draw(t, "bytes")
	}
	return kind, hex.EncodeToString(tile)
}

func genC14(t *rapid.T) c14Case {
	c := c14Case{Both: true}
	switch mode {
	case "factory", "poweron", "period":
		c.Workflow = mode
	case "single":
		c.Workflow = "single"
	default:
		c.Workflow = rapid.SampledFrom([]string{"period", "period", "period", "single"}).Draw(t, "workflow")
	}
	if c.Workflow == "single" {
		c.Tile = rapid.SampledFrom([]string{"00", "ff"}).Draw(t, "value")
		c.TileKind = "constant"
		c.NumByte = rapid.SampledFrom([]int{16, 39, 40, 1279, 1280}).Draw(t, "numbyte")
		if rapid.IntRange(0, 2).Draw(t, "history") == 0 {
			c.Prior = rapid.SampledFrom([]int{16, 4096, 65536, 1 << 20}).Draw(t, "prior")
		}
		switch rapid.IntRange(0, 3).Draw(t, "lenclass") {
		case 0:
			c.NumByte = uniformInt(t, 16, 4096, "numbyte")
		case 1: // large captures: pattern counts beyond 2^16 / 2^20
			c.NumByte = rapid.SampledFrom([]int{65535, 65536, 65537, 70000, 131072, 1 << 20, 1<<20 + 1, 1 << 22}).Draw(t, "numbyte")
		case 2:
			c.NumByte = uniformInt(t, 4097, 1<<21, "numbyte")
		}
		return c
	}
	c.TileKind, c.Tile = drawTile(t)
	if c.Workflow == "period" && rapid.IntRange(0, 3).Draw(t, "file") == 0 {
		c.FileHdr = rapid.SampledFrom([]int{1, 2500, 50000, 50001, 125000}).Draw(t, "file_header")
	}
	if rapid.IntRange(0, 2).Draw(t, "history") == 0 {
		c.Prior = rapid.SampledFrom([]int{1, 2499, 2500, 30000}).Draw(t, "prior_bytes")
		c.PriorWF = rapid.SampledFrom(priorWorkflows).Draw(t, "prior_workflow")
	}
	return c
}

func TestC14(t *testing.T) { runPropJ(t, "C14", genC14, checkC14, true) }

// TestC14Enum: all 256 constant bytes through the periodic workflows; 0x00/0xFF single-shot at every length VERIF_LO..VERIF_HI.
func TestC14Enum(t *testing.T) {
	var cases []c14Case
	if mode == "big" {
		// a 10^6-bit-sample detection right after a 20000-bit-sample one that ran dry (small buffers first, large ones next), and the reverse
		cases = append(cases, c14Case{Workflow: "poweron", Tile: "5a", TileKind: "constant", Prior: 2499, PriorWF: "period"},
			c14Case{Workflow: "poweron", Tile: "00ff", TileKind: "alternating", Prior: 30000, PriorWF: "period+fast", Both: true},
			c14Case{Workflow: "period", Tile: "c3", TileKind: "constant", Prior: 30000, PriorWF: "poweron", Both: true},
			c14Case{Workflow: "period", Tile: "0f", TileKind: "constant", Prior: 1, PriorWF: "factory+fast", Both: true})
		// 64-byte tiles with a single set bit: at bit positions = 3 mod 4 a block 0^499 1 reaches the m=500
		// linear-complexity test (the shape that crashed the pinned tree, D1); one position of each residue
		for _, bit := range []int{3, 0, 509, 254} {
			tile := make([]byte, 64)
			tile[bit/8] = 0x80 >> uint(bit%8)
			cases = append(cases, c14Case{Workflow: "poweron", Tile: hex.EncodeToString(tile), TileKind: "sparse", Both: bit == 3})
		}
		part, parts := envInt("VERIF_PART", 0), envInt("VERIF_PARTS", 1)
		var mine []c14Case
		for i, c := range cases {
			if i%parts == part {
				mine = append(mine, c)
			}
		}
		enumerate(t, "C14", mine, checkC14)
		return
	}
	for v := 0; v < 256; v++ {
		cases = append(cases, c14Case{Workflow: "period", Tile: fmt.Sprintf("%02x", v), TileKind: "constant", Both: true})
	}
	for n := envInt("VERIF_LO", 16); n <= envInt("VERIF_HI", 400); n++ {
		cases = append(cases, c14Case{Workflow: "single", Tile: "00", TileKind: "constant", NumByte: n}, c14Case{Workflow: "single", Tile: "ff", TileKind: "constant", NumByte: n})
	}
	for _, n := range []int{65535, 65536, 65537, 131072, 1 << 20, 1 << 22, 1 << 24, 200000000, 1 << 28} { // up to 2^31 bits (products of counts near 2^63)
		cases = append(cases, c14Case{Workflow: "single", Tile: "00", TileKind: "constant", NumByte: n}, c14Case{Workflow: "single", Tile: "ff", TileKind: "constant", NumByte: n})
	}
	// the sparse tile that crashed the pinned tree (D1): one set bit at bit position 3 mod 4 of a 64-byte tile
	tile := make([]byte, 64)
	tile[0] = 0x10
	cases = append(cases, c14Case{Workflow: "period", Tile: hex.EncodeToString(tile), TileKind: "sparse", Both: true})
	enumerate(t, "C14", cases, checkC14)
}
