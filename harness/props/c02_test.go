package props

import (
	"fmt"
	"testing"

	rn "github.com/Trisia/randomness"
	"pgregory.net/rapid"

	"verif/harness/gen"
	"verif/harness/ref"
)

// C02: runs, runs distribution, longest run in block (ones / zeros) = the standard's definition.

func runsCutoff(n int) int {
	k := 0
	for i := 1; i <= 62; i++ {
		if float64(n-i+3)/float64(uint64(1)<<uint(i+2)) >= 5 {
			k = i
		}
	}
	return k
}

func checkC02(c statCase) (Outcome, error) {
	bits := windowBits(c.Seq.Expand(), uint64(c.Seq.N)*2654435761+c.Seq.Seed+uint64(len(c.Test)))
	n := len(bits)
	what := fmt.Sprintf("%s ones=%v n=%d family=%s", c.Test, c.Flag, n, c.Seq.Family)
	out := Outcome{Classes: seqClasses(c, n)}
	rs := ref.RunsOf(bits)
	var gp, gq, wp, wq float64
	switch c.Test {
	case "runs":
		gp, gq = rn.RunsTest(bits)
		wp, wq = ref.Runs(bits)
	case "runsDist":
		gp, gq = rn.RunsDistributionTest(bits)
		wp = ref.RunsDist(bits)
		wq = wp
		k := runsCutoff(n)
		pooled := false
		atK := false
		for _, r := range rs {
			if r.L > k {
				pooled = true
			}
			if r.L == k {
				atK = true
			}
		}
		if pooled {
			out.Classes = append(out.Classes, "runsDist/run>k")
		}
		if atK {
			out.Classes = append(out.Classes, "runsDist/run==k")
		}
	case "longest":
		gp, gq = rn.LongestRunOfOnesInABlockProto(bits, c.Flag)
		wp = ref.LongestRun(bits, c.Flag)
		wq = wp
		switch {
		case n < 6272:
			out.Classes = append(out.Classes, "longest/m=8")
		case n < 750000:
			out.Classes = append(out.Classes, "longest/m=128")
		default:
			out.Classes = append(out.Classes, "longest/m=10000")
		}
	default:
		return out, fmt.Errorf("unknown test %q", c.Test)
	}
	if n%8 == 0 && n > 0 {
		// the byte-oriented entry points of the same three tests, on the harness's own packing
		data := windowBytes(gen.Pack(bits), uint64(n)+c.Seq.Seed)
		var bp, bq float64
		switch c.Test {
		case "runs":
			bp, bq = rn.RunsTestBytes(data)
		case "runsDist":
			bp, bq = rn.RunsDistributionTestBytes(data)
		case "longest":
			bp, bq = rn.LongestRunOfOnesInABlockTestBytes(data, c.Flag)
		}
		out.Classes = append(out.Classes, "also-bytes-entry")
		if err := cmpPQ(c.Test+"-bytes", what+" (byte entry point)", bp, bq, wp, wq, "C02"); err != nil {
			return out, err
		}
	}
	out.NonTrivial = len(rs) >= 3 && (nontrivialP(wp) || c.Test == "runs")
	return out, cmpPQ(c.Test, what, gp, gq, wp, wq, "C02")
}

func genC02(t *rapid.T) statCase {
	test := rapid.SampledFrom([]string{"runs", "runsDist", "longest", "longest"}).Draw(t, "test")
	c := statCase{Test: test}
	var n int
	switch test {
	case "runs":
		if rapid.IntRange(0, 9).Draw(t, "tiny") == 0 {
			n = rapid.IntRange(1, 20).Draw(t, "n")
		} else {
			n = drawLen(t, 100, nil)
		}
	case "runsDist":
		// cut-off k changes where (n-k+3)/2^(k+2) crosses 5: n = 5*2^(k+2)+k-3
		var bs []int
		for k := 2; k <= 13; k++ {
			bs = append(bs, 5*(1<<uint(k+2))+k-3, 5*(1<<uint(k+2)))
		}
		n = drawLen(t, 100, bs)
	case "longest":
		c.Flag = rapid.Bool().Draw(t, "ones")
		n = drawLen(t, 128, []int{6272, 6272 + 8, 128 * 50})
		if thorough() && rapid.IntRange(0, 60).Draw(t, "big") == 0 {
			n = 750000 + rapid.IntRange(-2, 20000).Draw(t, "dn")
			if rapid.Bool().Draw(t, "big_longrun") { // one planted run of 100..10000 bits (of the value under test or the other one)
				c.Seq = gen.Seq{Family: "longrun", N: n, Seed: rapid.Uint64().Draw(t, "lrseed"), A: rapid.IntRange(0, 1).Draw(t, "lrv"),
					B: uniformInt(t, 100, 10000, "lrlen"), Pos: []int{uniformInt(t, 0, n-1, "lrpos")}}
				return c
			}
		}
	}
	fams := []string{"explicit", "uniform", "biased", "constant", "alternating", "periodic", "sparse", "markov", "transition", "longrun", "runs", "runs", "markov", "balanced", "bytewords", "bytewords"}
	if rapid.IntRange(0, 2).Draw(t, "bytealigned") == 0 && n >= 128 {
		n = (n + 7) / 8 * 8
	}
	c.Seq = gen.DrawSeq(t, n, fams)
	if test == "runsDist" && rapid.IntRange(0, 2).Draw(t, "pink") == 0 {
		k := runsCutoff(n)
		c.Seq = gen.Seq{Family: "runs", N: n, Seed: rapid.Uint64().Draw(t, "seed"), A: k + rapid.IntRange(0, 3).Draw(t, "amax"),
			B: max(1, k+rapid.IntRange(-1, 1).Draw(t, "dk")), F: rapid.SampledFrom([]float64{0.02, 0.1, 0.5}).Draw(t, "pinfrac")}
	}
	if test == "longest" && rapid.IntRange(0, 2).Draw(t, "blockwise") == 0 {
		// force each block's longest run to sit around the class edges of its regime
		q := gen.Seq{Family: "blocklr", N: n, Seed: rapid.Uint64().Draw(t, "seed")}
		switch {
		case n < 6272:
			q.A, q.B, q.Pos = 8, 1, []int{3, 0}
		case n < 750000:
			q.A, q.B, q.Pos = 128, 4, []int{5, 0}
		default:
			q.A, q.B, q.Pos = 10000, 10, []int{6, 0}
		}
		if !c.Flag {
			q.Pos[1] = 1
		}
		q.Pos = append(q.Pos, rapid.SampledFrom([]int{0, 0, 1, 2, 3, 3}).Draw(t, "placement"))
		c.Seq = q
	}
	return c
}

func TestC02(t *testing.T) { runProp(t, "C02", genC02, checkC02) }

// TestC02Sweep: regime boundaries of the longest-run test and of the run cut-off (deterministic).
func TestC02Sweep(t *testing.T) {
	var cases []statCase
	i := 0
	for _, n := range []int{128, 129, 6271, 6272, 6273, 749999, 750000, 750001, 1000000} {
		for _, ones := range []bool{true, false} {
			i++
			cases = append(cases, statCase{Test: "longest", Flag: ones, Seq: gen.Seq{Family: "uniform", N: n, Seed: uint64(300 + i)}})
			cases = append(cases, statCase{Test: "longest", Flag: ones, Seq: gen.Seq{Family: "markov", N: n, Seed: uint64(400 + i), F: 0.6}})
		}
	}
	// each block's longest run placed at the block edges, touching the neighbouring block's longest run across the boundary, in all three regimes
	for j, spec := range []struct{ n, m, lo, k int }{{4000, 8, 1, 3}, {128 * 300, 128, 4, 5}, {750000, 10000, 10, 6}, {1000000, 10000, 10, 6}, {2000000, 10000, 11, 6}} {
		for _, ones := range []bool{true, false} {
			for _, place := range []int{3, 2, 1} {
				q := gen.Seq{Family: "blocklr", N: spec.n, Seed: uint64(600 + j), A: spec.m, B: spec.lo, Pos: []int{spec.k, 0, place}}
				if !ones {
					q.Pos[1] = 1
				}
				cases = append(cases, statCase{Test: "longest", Flag: ones, Seq: q})
			}
		}
	}
	// one very long run inside one 10000-bit block (n >= 750000): lengths around the widths of narrow integer types (2^7, 2^8, 2^9 .. 2^13)
	// and the whole block; also 128-bit blocks that are one single run (2^7 exactly)
	for j, l := range []int{127, 128, 129, 255, 256, 257, 260, 271, 272, 300, 511, 512, 513, 1023, 1024, 1030, 2048, 4095, 4096, 4100, 8191, 8192, 8200, 9999, 10000} {
		for _, ones := range []bool{true, false} {
			v := 0
			if ones {
				v = 1
			}
			n := []int{750000, 1000000, 750000 + 8*17}[j%3]
			pos := 30000 + 100*(j%7)
			if l >= 9000 {
				pos = 30000
			}
			cases = append(cases, statCase{Test: "longest", Flag: ones, Seq: gen.Seq{Family: "longrun", N: n, Seed: uint64(700 + j), A: v, B: l, Pos: []int{pos}}})
			if l <= 300 { // the 128-bit regime: the run covers whole blocks (longest run = 128 = the block)
				cases = append(cases, statCase{Test: "longest", Flag: ones, Seq: gen.Seq{Family: "longrun", N: 128 * 300, Seed: uint64(800 + j), A: v, B: l, Pos: []int{128 * 7}}})
			}
		}
	}
	// many blocks, block counts that are not multiples of 2, 4 or 8; lengths just above 2^20 and in the millions
	for j, n := range []int{131200, 262021, 1048577, 2000001, 10250001} {
		for _, ones := range []bool{true, false} {
			cases = append(cases, statCase{Test: "longest", Flag: ones, Seq: gen.Seq{Family: "uniform", N: n, Seed: uint64(500 + j)}})
		}
		cases = append(cases, statCase{Test: "runs", Seq: gen.Seq{Family: "uniform", N: n, Seed: uint64(510 + j)}}, statCase{Test: "runsDist", Seq: gen.Seq{Family: "uniform", N: n, Seed: uint64(520 + j)}})
	}
	for _, n := range []int{1, 2, 3, 100, 101} {
		for _, fam := range []string{"constant", "alternating", "uniform"} {
			cases = append(cases, statCase{Test: "runs", Seq: gen.Seq{Family: fam, N: n, Seed: 5}})
			if n >= 100 {
				cases = append(cases, statCase{Test: "runsDist", Seq: gen.Seq{Family: fam, N: n, Seed: 5}})
			}
		}
	}
	maxN, maxK := 6000000, 18
	if thorough() && mode == "huge" {
		maxN, maxK = 100000000, 22
	}
	for k := 2; k <= maxK; k++ {
		b := 5*(1<<uint(k+2)) + k - 3
		if thorough() && mode == "huge" && k < 19 {
			continue
		}
		for _, n := range []int{b - 1, b, b + 1, 5 * (1 << uint(k+2))} {
			if n >= 100 && n <= maxN {
				cases = append(cases, statCase{Test: "runsDist", Seq: gen.Seq{Family: "uniform", N: n, Seed: uint64(n)}})
				cases = append(cases, statCase{Test: "runsDist", Seq: gen.Seq{Family: "runs", N: n, Seed: uint64(n), A: k + 2, B: k, F: 0.1}})
			}
		}
	}
	if thorough() && mode == "huge" {
		cases = cases[:0:0]
		for k := 19; k <= 22; k++ {
			b := 5*(1<<uint(k+2)) + k - 3
			if b <= maxN {
				cases = append(cases, statCase{Test: "runsDist", Seq: gen.Seq{Family: "uniform", N: b, Seed: uint64(b)}})
			}
		}
		for _, n := range []int{10000000, 100000000} {
			cases = append(cases, statCase{Test: "runsDist", Seq: gen.Seq{Family: "uniform", N: n, Seed: 3}}, statCase{Test: "runs", Seq: gen.Seq{Family: "uniform", N: n, Seed: 4}},
				statCase{Test: "longest", Flag: true, Seq: gen.Seq{Family: "uniform", N: n, Seed: 5}}, statCase{Test: "longest", Flag: false, Seq: gen.Seq{Family: "markov", N: n, Seed: 6, F: 0.55}})
		}
	}
	enumerate(t, "C02", cases, checkC02)
}
