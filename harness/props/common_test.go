package props

import (
	"encoding/json"
	"flag"
	"fmt"
	"os"
	"runtime/debug"
	"strconv"
	"strings"
	"sync"
	"testing"
	"time"

	rn "github.com/Trisia/randomness"
	"pgregory.net/rapid"

	"verif/harness/evid"
)

// Environment contract with the driver (/verif/check):
//
//	VERIF_TIER        quick | thorough
//	VERIF_MODE        generator subset for this shard (property specific)
//	VERIF_EVID_OUT    where to write this shard's evidence fragment
//	VERIF_REPLAY      replay file: run checkCase on it, bypassing rapid
//	VERIF_REPLAY_OUT  where a failing (shrunk) case is written
//	VERIF_KNOWN       file with "known:" finding keys to exclude
//	VERIF_JOURNAL     file that receives the case about to be executed (crash journal)
var (
	tier      = envOr("VERIF_TIER", "quick")
	mode      = os.Getenv("VERIF_MODE")
	replayIn  = os.Getenv("VERIF_REPLAY")
	replayOut = os.Getenv("VERIF_REPLAY_OUT")
	journal   = os.Getenv("VERIF_JOURNAL")

	recMu sync.Mutex
	recs  = map[string]*evid.Recorder{}
	known = loadKnown(os.Getenv("VERIF_KNOWN"))
)

func envOr(k, d string) string {
	if v := os.Getenv(k); v != "" {
		return v
	}
	return d
}

func envInt(k string, d int) int {
	if v := os.Getenv(k); v != "" {
		if n, err := strconv.Atoi(v); err == nil {
			return n
		}
	}
	return d
}

func thorough() bool { return tier == "thorough" }

func loadKnown(path string) map[string]bool {
	out := map[string]bool{}
	if path == "" {
		return out
	}
	b, err := os.ReadFile(path)
	if err != nil {
		return out
	}
	for _, l := range strings.Split(string(b), "\n") {
		l = strings.TrimSpace(l)
		if !strings.HasPrefix(l, "known:") {
			continue
		}
		// known: property=C13 key=<key> description...
		var prop, key string
		for _, f := range strings.Fields(l) {
			if strings.HasPrefix(f, "property=") {
				prop = f[len("property="):]
			}
			if strings.HasPrefix(f, "key=") {
				key = f[len("key="):]
			}
		}
		if prop != "" && key != "" {
			out[prop+"|"+key] = true
		}
	}
	return out
}

func rec(id string) *evid.Recorder {
	recMu.Lock()
	defer recMu.Unlock()
	r, ok := recs[id]
	if !ok {
		r = evid.New(id)
		recs[id] = r
	}
	return r
}

// hostilePrelude: legal API use before any property runs - every slice / struct the library hands out is
// overwritten by the caller.  If a result aliases shared state (a lookup table, a cached plan, a pooled buffer),
// everything computed afterwards in this process is affected and the properties' oracles see it.
func hostilePrelude() {
	defer func() { _ = recover() }()
	for v := 0; v < 256; v++ {
		b := rn.B2bit(byte(v))
		for i := range b {
			b[i] = i%3 == 0 // not the complement: most statistics are invariant under complementing every bit
		}
	}
	data := make([]byte, 1200)
	for i := range data {
		data[i] = byte(i*37 + i/256)
	}
	e := rn.B2bitArr(data)
	for i := range e {
		e[i] = i%3 == 0
	}
	for _, it := range rn.TestMethodArr {
		r := it.Runner(data)
		r.P, r.Q, r.P2, r.Q2, r.Pass, r.Name = -1, -1, -1, -1, !r.Pass, ""
	}
}

func TestMain(m *testing.M) {
	flag.Parse()
	if os.Getenv("VERIF_NO_PRELUDE") == "" {
		hostilePrelude()
	}
	code := m.Run()
	out := os.Getenv("VERIF_EVID_OUT")
	flushFuzz(os.Getenv("VERIF_FUZZ_PROP"), out)
	if fw := flag.Lookup("test.fuzzworker"); fw != nil && fw.Value.String() == "true" && out != "" {
		out = fmt.Sprintf("%s.fuzzrec-%d", out, os.Getpid()) // fuzz workers are separate processes: one fragment each
	}
	recMu.Lock()
	for _, r := range recs {
		if out != "" {
			if err := r.Flush(out); err != nil {
				fmt.Fprintln(os.Stderr, "evidence flush:", err)
				code = 3
			}
		}
	}
	recMu.Unlock()
	os.Exit(code)
}

// Violation is a property failure with a stable key (used by the known-findings file).
type Violation struct {
	Key string
	Msg string
}

func (v *Violation) Error() string { return v.Msg }

func violation(key, format string, a ...interface{}) error {
	return &Violation{Key: key, Msg: fmt.Sprintf(format, a...)}
}

// Outcome describes an executed case for the evidence.
type Outcome struct {
	NonTrivial bool
	Classes    []string
	Skip       string // non-empty: case not decidable / outside the domain, with the reason
}

var currentTest string

type replayFile struct {
	Property string          `json:"property"`
	Test     string          `json:"test"`
	Mode     string          `json:"mode"`
	Key      string          `json:"key"`
	Msg      string          `json:"msg"`
	Case     json.RawMessage `json:"case"`
	Fresh    bool            `json:"fresh_process,omitempty"` // found in a process that started without the hostile prelude: replay it the same way
}

func writeReplay(id string, caseJSON []byte, key, msg string) string {
	if replayOut == "" {
		return ""
	}
	b, _ := json.MarshalIndent(replayFile{Property: id, Test: currentTest, Mode: mode, Key: key, Msg: msg, Case: caseJSON, Fresh: os.Getenv("VERIF_NO_PRELUDE") != ""}, "", " ")
	_ = os.WriteFile(replayOut, b, 0o644)
	return replayOut
}

func writeJournal(id string, caseJSON []byte) {
	if journal == "" {
		return
	}
	b, _ := json.Marshal(replayFile{Property: id, Test: currentTest, Mode: mode, Key: "crash", Msg: "process died while executing this case", Case: caseJSON, Fresh: os.Getenv("VERIF_NO_PRELUDE") != ""})
	_ = os.WriteFile(journal, b, 0o644)
}

// safely runs check and converts a panic in the code under test into a violation.
func safely[C any](check func(C) (Outcome, error), c C) (out Outcome, err error) {
	defer func() {
		if x := recover(); x != nil {
			var keep []string
			for _, l := range strings.Split(string(debug.Stack()), "\n") {
				if strings.Contains(l, "Trisia/randomness") || strings.Contains(l, "/repo/") {
					keep = append(keep, strings.TrimSpace(l))
				}
				if len(keep) >= 8 {
					break
				}
			}
			err = violation("panic", "panic: %v\n  at %s", x, strings.Join(keep, "\n     "))
		}
	}()
	return check(c)
}

// judge records one executed case and returns the failure (nil if none / known).
// Soft time budget: the driver tells the shard how long it may run (VERIF_SOFT_DEADLINE_S, well below the hard go-test
// deadline). Once it has passed, generated cases are counted as skipped instead of evaluated, so a slow or busy machine
// lowers the number of cases (reported in the evidence, checked against the shard's floor by the driver) instead of
// killing the process and losing everything it found. The budget never decides a verdict.
var (
	processStart = time.Now()
	softDeadline = time.Duration(envInt("VERIF_SOFT_DEADLINE_S", 0)) * time.Second
)

func softExpired() bool {
	return softDeadline > 0 && replayIn == "" && time.Since(processStart) > softDeadline
}

func judge[C any](id string, c C, check func(C) (Outcome, error), useJournal bool) (skip string, fail error) {
	if softExpired() {
		rec(id).Skip("time budget reached: case generated but not evaluated")
		return "", nil
	}
	cj, _ := json.Marshal(c)
	if useJournal {
		writeJournal(id, cj)
	}
	out, err := safely(check, c)
	r := rec(id)
	if err == nil && out.Skip != "" {
		r.Skip(out.Skip)
		return out.Skip, nil
	}
	r.Observe(cj, out.NonTrivial, out.Classes)
	if err == nil {
		return "", nil
	}
	key := "unkeyed"
	if v, ok := err.(*Violation); ok {
		key = v.Key
	}
	if known[id+"|"+key] {
		r.Fail(evid.Failure{Key: key, Msg: err.Error(), Known: true})
		r.Excluded()
		return "known finding " + key, nil
	}
	path := writeReplay(id, cj, key, err.Error())
	r.Fail(evid.Failure{Key: key, Msg: err.Error(), Replay: path})
	return "", err
}

// runProp drives one property: replay mode (plain regression, no rapid) or rapid.Check.
func runProp[C any](t *testing.T, id string, gen func(*rapid.T) C, check func(C) (Outcome, error)) {
	runPropJ(t, id, gen, check, true) // always journal: a fatal error (stack overflow, worker-goroutine panic) cannot be recovered in-process
}

func runPropJ[C any](t *testing.T, id string, gen func(*rapid.T) C, check func(C) (Outcome, error), useJournal bool) {
	currentTest = t.Name()
	if replayIn != "" {
		replayCase(t, id, check)
		return
	}
	rapid.Check(t, func(rt *rapid.T) {
		c := gen(rt)
		skip, err := judge(id, c, check, useJournal)
		if err != nil {
			rt.Fatalf("%s: %v", id, err)
		}
		_ = skip
	})
}

func replayCase[C any](t *testing.T, id string, check func(C) (Outcome, error)) {
	b, err := os.ReadFile(replayIn)
	if err != nil {
		t.Fatalf("replay: %v", err)
	}
	var rf replayFile
	if err := json.Unmarshal(b, &rf); err != nil {
		t.Fatalf("replay: %v", err)
	}
	if rf.Property != id {
		t.Skipf("replay file is for %s", rf.Property)
	}
	var c C
	if err := json.Unmarshal(rf.Case, &c); err != nil {
		t.Fatalf("replay: cannot decode case: %v", err)
	}
	_, ferr := judge(id, c, check, false)
	if ferr != nil {
		t.Fatalf("%s replay: %v", id, ferr)
	}
}

// enumerate runs a deterministic list of cases through the same judge (no rapid).
func enumerate[C any](t *testing.T, id string, cases []C, check func(C) (Outcome, error)) {
	currentTest = t.Name()
	if replayIn != "" {
		replayCase(t, id, check)
		return
	}
	for _, c := range cases {
		_, err := judge(id, c, check, true)
		if err != nil {
			t.Fatalf("%s: %v", id, err)
		}
	}
}

func near(a, b, tol float64) bool {
	d := a - b
	if d < 0 {
		d = -d
	}
	return d <= tol
}

// windowBits / windowBytes hand an input over the way callers that cut samples out of one long capture do: as a window of
// a larger buffer, starting at an arbitrary (not word-aligned) offset and with spare capacity behind it. The content is
// unchanged; where it lives is a function of salt.
func windowBits(bits []bool, salt uint64) []bool {
	off := int(salt % 16)
	buf := make([]bool, off+len(bits)+int(salt>>4%9))
	for i := range buf {
		buf[i] = i%3 == 0
	}
	copy(buf[off:], bits)
	return buf[off : off+len(bits)]
}

func windowBytes(data []byte, salt uint64) []byte {
	off := int(salt % 16)
	buf := make([]byte, off+len(data)+int(salt>>4%9))
	for i := range buf {
		buf[i] = byte(i * 7)
	}
	copy(buf[off:], data)
	return buf[off : off+len(data)]
}
