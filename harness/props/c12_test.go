package props

import (
	"fmt"
	"math"
	"testing"

	"github.com/Trisia/randomness/detect"
	"pgregory.net/rapid"

	"verif/harness/gen"
	"verif/harness/ref"
)

// C12: Threshold(s) and ThresholdQ(list) follow GM/T 0005 section 6.

type c12Case struct {
	Kind string    `json:"kind"` // "threshold" | "uniformity"
	S    int       `json:"s,omitempty"`
	Qs   []float64 `json:"qs,omitempty"`
	Perm uint64    `json:"perm,omitempty"`
	// long lists as a recipe (S values; a fraction Frac of them inside interval Bin, the rest uniform), expanded by the harness PRNG
	Bin  int     `json:"bin,omitempty"`
	Frac float64 `json:"frac,omitempty"`
}

func (c c12Case) list() []float64 {
	if c.Kind != "uniformity" || c.S == 0 {
		return c.Qs
	}
	r := gen.NewRng(c.Perm ^ 0x5bd1e995)
	qs := make([]float64, c.S)
	for i := range qs {
		if r.Float() < c.Frac {
			qs[i] = (float64(c.Bin) + r.Float()*0.999) / 10
		} else {
			qs[i] = r.Float()
		}
	}
	return qs
}

// tie values: s = 11k^2 with 100 | k(11k-1)... simply all s <= 10^6 where the real
// threshold is an integer, found by the exact rule (computed once).
var c12Ties = []int{2816, 61875, 91091, 110000, 440000, 990000}

func realThreshold(s int) float64 {
	return float64(s) * (1 - 0.01 - 3*math.Sqrt(0.01*0.99/float64(s)))
}

func checkC12(c c12Case) (Outcome, error) {
	switch c.Kind {
	case "threshold":
		got := detect.Threshold(c.S)
		want := int(ref.Threshold(int64(c.S)))
		r := realThreshold(c.S)
		fr := r - math.Floor(r)
		nt := fr < 0.01 || fr > 0.99 || c.S == 20 || c.S == 50 || c.S == 1000
		cls := []string{"threshold"}
		if nt {
			cls = append(cls, "threshold/near-integer")
		}
		if got != want {
			return Outcome{NonTrivial: nt, Classes: cls}, violation("threshold", "Threshold(%d) = %d, exact rule gives %d (real value %.12f)", c.S, got, want, r)
		}
		return Outcome{NonTrivial: nt, Classes: cls}, nil
	case "uniformity":
		c.Qs = c.list()
		if len(c.Qs) == 0 {
			return Outcome{Skip: "empty list (s >= 1 required)"}, nil
		}
		got := detect.ThresholdQ(c.Qs)
		want, hist := ref.Uniformity(c.Qs)
		onEdge := false
		for _, q := range c.Qs {
			for k := 1; k <= 10; k++ {
				if q == float64(k)/10 || q == edgeDoubles[k] {
					onEdge = true
				}
			}
		}
		cls := []string{"uniformity"}
		if c.S > 0 {
			cls = append(cls, "uniformity/long-list")
		}
		if onEdge {
			cls = append(cls, "uniformity/value-on-edge")
		}
		out := Outcome{NonTrivial: onEdge || (want > 1e-9 && want < 1-1e-9), Classes: cls}
		if !near(got, want, 1e-10) {
			return out, violation("uniformity", "ThresholdQ = %.15g, reference Q(4.5,V/2) = %.15g, histogram %v", got, want, hist)
		}
		// permutation invariance
		p := append([]float64{}, c.Qs...)
		r := gen.NewRng(c.Perm)
		for i := len(p) - 1; i > 0; i-- {
			j := r.Intn(i + 1)
			p[i], p[j] = p[j], p[i]
		}
		got2 := detect.ThresholdQ(p)
		if !near(got, got2, 1e-12) {
			return out, violation("uniformity-order", "ThresholdQ depends on order: %.15g vs %.15g", got, got2)
		}
		return out, nil
	}
	return Outcome{}, fmt.Errorf("bad kind %q", c.Kind)
}

var edgeDoubles = func() (e [11]float64) {
	for k := 1; k <= 10; k++ {
		e[k] = edgeDouble(k)
	}
	return
}()

func edgeDouble(k int) float64 {
	var f float64
	fmt.Sscanf(fmt.Sprintf("0.%d", k), "%g", &f)
	if k == 10 {
		return 1
	}
	return f
}

func genC12(t *rapid.T) c12Case {
	if rapid.IntRange(0, 2).Draw(t, "kind") == 0 {
		var s int
		switch rapid.IntRange(0, 3).Draw(t, "sclass") {
		case 0:
			s = rapid.SampledFrom(append([]int{1, 2, 3, 20, 50, 1000}, c12Ties...)).Draw(t, "s")
		case 1:
			s = rapid.IntRange(1, 2000).Draw(t, "s")
		default:
			s = rapid.IntRange(1, 1000000).Draw(t, "s")
		}
		return c12Case{Kind: "threshold", S: s}
	}
	if rapid.IntRange(0, 15).Draw(t, "recipe") == 0 { // long lists (up to 10^6 Q-values), from uniform to everything in one interval
		return c12Case{Kind: "uniformity", S: uniformInt(t, 2001, rapid.SampledFrom([]int{10000, 100000, 1000000}).Draw(t, "smax"), "s"), Bin: rapid.IntRange(0, 9).Draw(t, "bin"),
			Frac: rapid.SampledFrom([]float64{0, 0.001, 0.005, 0.02, 0.05, 0.3, 1}).Draw(t, "frac"), Perm: rapid.Uint64().Draw(t, "perm")}
	}
	n := rapid.IntRange(1, 60).Draw(t, "len")
	if rapid.IntRange(0, 5).Draw(t, "long") == 0 {
		n = rapid.IntRange(61, 2000).Draw(t, "len")
	}
	qs := make([]float64, n)
	style := rapid.IntRange(0, 3).Draw(t, "style")
	for i := range qs {
		switch rapid.IntRange(0, 3).Draw(t, "vk") {
		case 0: // exact edge doubles and their neighbours
			k := rapid.IntRange(-1, 10).Draw(t, "edge")
			v := 0.0
			if k > 0 {
				v = edgeDouble(k)
			}
			if k < 0 {
				v = math.Copysign(0, -1) // negative zero: equal to 0, a member of [0, 0.1)
			}
			switch rapid.IntRange(0, 2).Draw(t, "nb") {
			case 1:
				if v < 1 {
					v = math.Nextafter(v, 2)
				}
			case 2:
				if v > 0 {
					v = math.Nextafter(v, -1)
				}
			}
			qs[i] = v
		case 1:
			if style == 0 { // clustered
				qs[i] = rapid.Float64Range(0.3, 0.31).Draw(t, "q")
			} else {
				qs[i] = rapid.Float64Range(0, 1).Draw(t, "q")
			}
		default: // uniform on the 2^-53 grid (rapid's float generator favours tiny magnitudes)
			qs[i] = float64(rapid.Uint64Range(0, 1<<53-1).Draw(t, "u")) / (1 << 53)
		}
	}
	return c12Case{Kind: "uniformity", Qs: qs, Perm: rapid.Uint64().Draw(t, "perm")}
}

func TestC12(t *testing.T) { runProp(t, "C12", genC12, checkC12) }

// TestC12Sweep: deterministic part. quick: fixed list; thorough: every s in
// [VERIF_LO, VERIF_HI] (the driver splits 1..10^6 over shards => exhaustive).
func TestC12Sweep(t *testing.T) {
	var cases []c12Case
	nz := math.Copysign(0, -1)
	cases = append(cases, c12Case{Kind: "uniformity", Qs: []float64{nz}}, c12Case{Kind: "uniformity", Qs: []float64{0.05, 0.15, 0.25, 0.35, 0.45, 0.55, 0.65, 0.75, 0.85, 0.95, nz, nz, 0, 1, 5e-324}, Perm: 3})
	for _, s := range append([]int{1, 2, 3, 4, 5, 10, 19, 20, 21, 49, 50, 51, 100, 999, 1000, 1001, 1000000}, c12Ties...) {
		cases = append(cases, c12Case{Kind: "threshold", S: s})
	}
	lo, hi := envInt("VERIF_LO", 0), envInt("VERIF_HI", -1)
	for s := lo; s <= hi; s++ {
		if s >= 1 {
			cases = append(cases, c12Case{Kind: "threshold", S: s})
		}
	}
	if lo <= 1 {
		// perfectly uniform lists (exactly s/10 values in every interval: V is exactly 0) of every length 10, 20, ..., 6000, and the
		// same with one value moved (V = 20/s)
		for s := 10; s <= 6000; s += 10 {
			qs := make([]float64, 0, s)
			r := gen.NewRng(uint64(s))
			for b := 0; b < 10; b++ {
				for i := 0; i < s/10; i++ {
					qs = append(qs, (float64(b)+r.Float()*0.999)/10)
				}
			}
			cases = append(cases, c12Case{Kind: "uniformity", Qs: qs, Perm: uint64(s)})
			if s%50 == 0 {
				q2 := append([]float64{}, qs...)
				q2[0] = 0.95
				cases = append(cases, c12Case{Kind: "uniformity", Qs: q2, Perm: uint64(s + 1)})
			}
		}
	}
	if lo <= 1 {
		for i, sz := range []int{5149, 20000, 100000, 1000000} {
			for j, fr := range []float64{0, 0.005, 0.05, 1} {
				cases = append(cases, c12Case{Kind: "uniformity", S: sz, Bin: (i + 3*j) % 10, Frac: fr, Perm: uint64(10*i + j)})
			}
		}
	}
	enumerate(t, "C12", cases, checkC12)
}
