package props

import (
	"regexp"
	"runtime"
	"strings"
	"time"
)

// Quiescence detector (DESIGN.md section 5, C09): "returns within bounded time" is
// decided by observing that no goroutine with a library frame can make progress any more,
// not by a stopwatch.

var goroutineHdr = regexp.MustCompile(`^goroutine (\d+) \[([^\],]+)(?:, [^\]]*)?\]:`)

type gInfo struct {
	State string
	Text  string
}

func libraryGoroutines() []gInfo {
	buf := make([]byte, 1<<20)
	for {
		n := runtime.Stack(buf, true)
		if n < len(buf) {
			buf = buf[:n]
			break
		}
		buf = make([]byte, 2*len(buf))
	}
	var out []gInfo
	for _, blk := range strings.Split(string(buf), "\n\n") {
		m := goroutineHdr.FindStringSubmatch(blk)
		if m == nil {
			continue
		}
		if !strings.Contains(blk, "github.com/Trisia/randomness") {
			continue
		}
		if strings.Contains(blk, "props.libraryGoroutines") {
			continue // the snapshotting goroutine itself
		}
		out = append(out, gInfo{State: m[2], Text: blk})
	}
	return out
}

var parkedStates = map[string]bool{
	"semacquire": true, "sync.WaitGroup.Wait": true, "chan receive": true, "chan send": true, "select": true,
	"sync.Mutex.Lock": true, "sync.Cond.Wait": true, "sync.RWMutex.Lock": true, "sync.RWMutex.RLock": true,
	"chan receive (nil chan)": true, "chan send (nil chan)": true, "select (no cases)": true,
}

type callResult struct {
	Verdict  bool
	Err      error
	Panic    interface{}
	Hung     bool   // quiescent without having returned: it can never return
	Dump     string // goroutine dump at the time of the verdict
	Slow     bool   // wall-clock guard hit: inconclusive
	Spinning bool   // keeps reading a permanently failing source (> 10^6 failed reads) instead of returning
	Leaked   int    // library goroutines above the baseline after the grace period
	LeakDump string
}

// callWatched runs fn under the quiescence detector. baseline = library goroutines
// that existed before the call (e.g. leaked by an earlier failing case).
func callWatched(fn func() (bool, error), wallLimit time.Duration) callResult {
	return callWatchedProbe(fn, wallLimit, nil)
}

// callWatchedProbe: spinning() reports that the workflow keeps hammering a source that has failed for good
// (more than a million failed Reads): it is not parked, but it will never return either.
func callWatchedProbe(fn func() (bool, error), wallLimit time.Duration, spinning func() bool) callResult {
	baseline := len(libraryGoroutines())
	type ret struct {
		v bool
		e error
		p interface{}
	}
	done := make(chan ret, 1)
	go func() {
		var r ret
		defer func() {
			if x := recover(); x != nil {
				r.p = x
			}
			done <- r
		}()
		r.v, r.e = fn()
	}()
	tick := time.NewTicker(100 * time.Millisecond)
	defer tick.Stop()
	start := time.Now()
	quiet := 0
	var res callResult
	for {
		select {
		case r := <-done:
			res.Verdict, res.Err, res.Panic = r.v, r.e, r.p
			// leak census: library goroutines must drain back to the baseline
			deadline := time.Now().Add(3 * time.Second)
			for {
				gs := libraryGoroutines()
				if len(gs) <= baseline {
					return res
				}
				if time.Now().After(deadline) {
					// only count goroutines that are parked for good (a still-running worker is not a leak yet)
					parked := 0
					var sb strings.Builder
					for _, g := range gs {
						if parkedStates[g.State] {
							parked++
							sb.WriteString(g.Text)
							sb.WriteString("\n\n")
						}
					}
					if parked > baseline {
						res.Leaked = parked - baseline
						res.LeakDump = sb.String()
						return res
					}
					if time.Now().After(deadline.Add(20 * time.Second)) {
						return res
					}
				}
				time.Sleep(20 * time.Millisecond)
			}
		case <-tick.C:
			gs := libraryGoroutines()
			all := len(gs) > baseline
			n := 0
			for _, g := range gs {
				if !parkedStates[g.State] {
					all = false
					break
				}
				n++
			}
			if all && n > 0 {
				quiet++
			} else {
				quiet = 0
			}
			if quiet >= 3 {
				var sb strings.Builder
				for _, g := range gs {
					sb.WriteString(g.Text)
					sb.WriteString("\n\n")
				}
				res.Hung = true
				res.Dump = sb.String()
				return res
			}
			if spinning != nil && spinning() {
				res.Spinning = true
				return res
			}
			if time.Since(start) > wallLimit {
				res.Slow = true
				return res
			}
		}
	}
}
