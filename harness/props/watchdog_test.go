package props

import (
	"regexp"
	"runtime"
	"strings"
	"sync"
	"time"
)

// Quiescence detector (DESIGN.md section 5, C09): "returns within bounded time" is
// decided by observing that no goroutine with a library frame can make progress any more,
// not by a stopwatch.

var goroutineHdr = regexp.MustCompile(`^goroutine (\d+) \[([^\],]+)(?:, [^\]]*)?\]:`)

type gInfo struct {
	State string
	Text  string
}

func libraryGoroutines() []gInfo { return goroutinesWith("github.com/Trisia/randomness") }

// goroutinesWith returns the goroutines whose stack mentions any of the given strings (the snapshotting goroutine excepted).
func goroutinesWith(needles ...string) []gInfo {
	buf := make([]byte, 1<<20)
	for {
		n := runtime.Stack(buf, true)
		if n < len(buf) {
			buf = buf[:n]
			break
		}
		buf = make([]byte, 2*len(buf))
	}
	var out []gInfo
	for _, blk := range strings.Split(string(buf), "\n\n") {
		m := goroutineHdr.FindStringSubmatch(blk)
		if m == nil {
			continue
		}
		hit := false
		for _, nd := range needles {
			hit = hit || strings.Contains(blk, nd)
		}
		if !hit {
			continue
		}
		if strings.Contains(blk, "props.goroutinesWith") {
			continue // the snapshotting goroutine itself
		}
		out = append(out, gInfo{State: m[2], Text: blk})
	}
	return out
}

var parkedStates = map[string]bool{
	"semacquire": true, "sync.WaitGroup.Wait": true, "chan receive": true, "chan send": true, "select": true,
	"sync.Mutex.Lock": true, "sync.Cond.Wait": true, "sync.RWMutex.Lock": true, "sync.RWMutex.RLock": true,
	"chan receive (nil chan)": true, "chan send (nil chan)": true, "select (no cases)": true,
}

type callResult struct {
	Verdict  bool
	Err      error
	Panic    interface{}
	Hung     bool   // quiescent without having returned: it can never return
	Dump     string // goroutine dump at the time of the verdict
	Slow     bool   // wall-clock guard hit: inconclusive
	Spinning bool   // keeps reading a permanently failing source (> 10^6 failed reads) instead of returning
	Leaked   int    // library goroutines above the baseline after the grace period
	LeakDump string
}

// callWatched runs fn under the quiescence detector. baseline = library goroutines
// that existed before the call (e.g. leaked by an earlier failing case).
func callWatched(fn func() (bool, error), wallLimit time.Duration) callResult {
	return callWatchedProbe(fn, wallLimit, nil)
}

// callWatchedProbe: spinning() reports that the workflow keeps hammering a source that has failed for good
// (more than a million failed Reads): it is not parked, but it will never return either.
func callWatchedProbe(fn func() (bool, error), wallLimit time.Duration, spinning func() bool) callResult {
	baseline := len(libraryGoroutines())
	type ret struct {
		v bool
		e error
		p interface{}
	}
	done := make(chan ret, 1)
	go func() {
		var r ret
		defer func() {
			if x := recover(); x != nil {
				r.p = x
			}
			done <- r
		}()
		r.v, r.e = fn()
	}()
	tick := time.NewTicker(100 * time.Millisecond)
	defer tick.Stop()
	start := time.Now()
	quiet := 0
	var res callResult
	for {
		select {
		case r := <-done:
			res.Verdict, res.Err, res.Panic = r.v, r.e, r.p
			// leak census: library goroutines must drain back to the baseline
			deadline := time.Now().Add(3 * time.Second)
			for {
				gs := libraryGoroutines()
				if len(gs) <= baseline {
					return res
				}
				if time.Now().After(deadline) {
					// only count goroutines that are parked for good (a still-running worker is not a leak yet)
					parked := 0
					var sb strings.Builder
					for _, g := range gs {
						if parkedStates[g.State] {
							parked++
							sb.WriteString(g.Text)
							sb.WriteString("\n\n")
						}
					}
					if parked > baseline {
						res.Leaked = parked - baseline
						res.LeakDump = sb.String()
						return res
					}
					if time.Now().After(deadline.Add(20 * time.Second)) {
						return res
					}
				}
				time.Sleep(20 * time.Millisecond)
			}
		case <-tick.C:
			gs := libraryGoroutines()
			all := len(gs) > baseline
			n := 0
			for _, g := range gs {
				if !parkedStates[g.State] {
					all = false
					break
				}
				n++
			}
			if all && n > 0 {
				quiet++
			} else {
				quiet = 0
			}
			if quiet >= 3 {
				var sb strings.Builder
				for _, g := range gs {
					sb.WriteString(g.Text)
					sb.WriteString("\n\n")
				}
				res.Hung = true
				res.Dump = sb.String()
				return res
			}
			if spinning != nil && spinning() {
				res.Spinning = true
				return res
			}
			if time.Since(start) > wallLimit {
				res.Slow = true
				return res
			}
		}
	}
}

// waitOrDeadlock waits for wg; it reports a deadlock when, for 5 s without interruption (snapshots every 200 ms), there are
// goroutines inside the library and every one of them is parked on a channel / mutex / semaphore: nobody is left who could wake them
// (the harness goroutines only wait for them). A slow but running call is never reported.
func waitOrDeadlock(wg *sync.WaitGroup) (bool, string) {
	done := make(chan struct{})
	go func() { wg.Wait(); close(done) }()
	tick := time.NewTicker(200 * time.Millisecond)
	defer tick.Stop()
	quiet := 0
	for {
		select {
		case <-done:
			return false, ""
		case <-tick.C:
			gs := goroutinesWith("github.com/Trisia/randomness", "verif/harness/props.runTask")
			all, inCall := true, 0
			for _, g := range gs {
				if !parkedStates[g.State] {
					all = false
					break
				}
				if strings.Contains(g.Text, "verif/harness/props.runTask") {
					inCall++
				}
			}
			if !all || inCall == 0 { // a parked goroutine below runTask is blocked inside the library call it made
				quiet = 0
				continue
			}
			quiet++
			if quiet >= 25 {
				var sb strings.Builder
				for i, g := range gs {
					if i >= 3 {
						break
					}
					sb.WriteString(g.Text)
					sb.WriteString("\n\n")
				}
				return true, sb.String()
			}
		}
	}
}
