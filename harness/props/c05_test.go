package props

import (
	"fmt"
	"math"
	"runtime"
	"testing"

	rn "github.com/Trisia/randomness"
	"pgregory.net/rapid"

	"verif/harness/gen"
	"verif/harness/ref"
)

// C05: DFT (spectral) test = the standard's statistic on the exact spectrum of the
// +-1 sequence zero-extended to the next power of two.

type c05Case struct {
	Seq   gen.Seq `json:"seq"`
	Bytes bool    `json:"bytes,omitempty"`
	Procs int     `json:"gomaxprocs,omitempty"` // the result must not depend on the number of processors (incl. counts that are not powers of two)
}

func dftPQ(n, n1 int) (float64, float64) {
	v := (float64(n1) - 0.95*float64(n)/2) / math.Sqrt(0.95*0.05*float64(n)/3.8)
	return ref.TwoSided(v)
}

func checkC05(c c05Case) (Outcome, error) {
	bits := c.Seq.Expand()
	n := len(bits)
	N := ref.NextPow2(n)
	cls := []string{"family:" + c.Seq.Family}
	switch {
	case n == N:
		cls = append(cls, "n=2^k")
	case n == N/2+1:
		cls = append(cls, "n=2^k+1 (maximal padding)")
	default:
		cls = append(cls, "padded")
	}
	switch {
	case n <= 64:
		cls = append(cls, "n<=64")
	case n <= 4096:
		cls = append(cls, "n<=4096")
	case n <= 1<<17:
		cls = append(cls, "n<=2^17")
	case n <= 1<<21:
		cls = append(cls, "n<=2^21")
	default:
		cls = append(cls, "n>2^21")
	}
	if c.Procs > 0 {
		old := runtime.GOMAXPROCS(c.Procs)
		defer runtime.GOMAXPROCS(old)
		cls = append(cls, "gomaxprocs:"+itoa(c.Procs))
	}
	var gp, gq float64
	if c.Bytes && n%8 == 0 {
		gp, gq = rn.DiscreteFourierTransformTestBytes(gen.Pack(bits))
		cls = append(cls, "via-bytes")
	} else {
		gp, gq = rn.DiscreteFourierTransformTest(bits)
	}
	cnt := n/2 - 1
	var lo, amb int
	if c.Seq.Family == "transition" && n > 1<<21 {
		// sizes beyond what a reference transform can do: the spectrum of a single-transition sequence is a
		// difference of two geometric sums and is evaluated in closed form per bin
		cls = append(cls, "analytic-oracle")
		lo, amb = ref.TransitionSpectrumCount(n, c.Seq.Pos[0], N, cnt, math.Sqrt(2.995732274*float64(n)), 1e-7)
	} else {
		_, _, lo, amb = ref.DFTTest(bits)
	}
	out := Outcome{NonTrivial: lo > 0 && lo+amb < cnt, Classes: cls}
	if amb > 0 {
		out.Classes = append(out.Classes, "ambiguous-bins")
	}
	best := math.Inf(1)
	for n1 := lo; n1 <= lo+amb; n1++ {
		wp, wq := dftPQ(n, n1)
		d := math.Max(math.Abs(gp-wp), math.Abs(gq-wq))
		if d < best {
			best = d
		}
	}
	if math.IsNaN(gp) || math.IsNaN(gq) {
		best = math.Inf(1)
	}
	rec("C05").Max("worst_deviation", best)
	if !(best <= 1e-8) {
		wp, wq := dftPQ(n, lo)
		return out, violation("dft", "DFT n=%d family=%s: library P=%.12g Q=%.12g; reference N1 in [%d,%d] of %d bins gives P=%.12g Q=%.12g (closest |diff| %.3g)",
			n, c.Seq.Family, gp, gq, lo, lo+amb, cnt, wp, wq, best)
	}
	return out, nil
}

func genC05(t *rapid.T) c05Case {
	var n int
	maxExp := 15
	if thorough() {
		maxExp = 18
	}
	switch rapid.IntRange(0, 9).Draw(t, "nclass") {
	case 0, 1:
		n = rapid.IntRange(2, 64).Draw(t, "n")
	case 2:
		n = 1 << uint(rapid.IntRange(1, maxExp).Draw(t, "exp"))
	case 3:
		n = 1<<uint(rapid.IntRange(1, maxExp-1).Draw(t, "exp")) + 1
	case 4:
		n = 1<<uint(rapid.IntRange(2, maxExp).Draw(t, "exp")) - 1
	case 5:
		n = uniformInt(t, 4097, 1<<uint(maxExp), "n")
	default:
		n = uniformInt(t, 65, 4096, "n")
	}
	fams := []string{"explicit", "uniform", "uniform", "biased", "constant", "alternating", "periodic", "tone", "tone", "markov", "sparse", "balanced", "transition"}
	return c05Case{Seq: gen.DrawSeq(t, n, fams), Bytes: rapid.Bool().Draw(t, "bytes"), Procs: rapid.SampledFrom([]int{0, 0, 1, 2, 3, 5, 6, 7, 12, 16}).Draw(t, "gomaxprocs")}
}

func TestC05(t *testing.T) { runProp(t, "C05", genC05, checkC05) }

// TestC05Sweep: every n in 2..64 (VERIF_HI) and the large sizes, deterministic.
func TestC05Sweep(t *testing.T) {
	var cases []c05Case
	for n := 2; n <= envInt("VERIF_HI", 64); n++ {
		for s := 0; s < 3; s++ {
			cases = append(cases, c05Case{Seq: gen.Seq{Family: "uniform", N: n, Seed: uint64(n*10 + s)}})
		}
		cases = append(cases, c05Case{Seq: gen.Seq{Family: "constant", N: n, A: 1}}, c05Case{Seq: gen.Seq{Family: "alternating", N: n}})
	}
	big := []int{1 << 16, 1<<16 + 1, 100000, 1 << 17, 1000000, 1<<20 + 1, 2000001}
	if thorough() {
		big = append(big, 1<<19+1, 1<<20, 1<<22+3)
	}
	for i, n := range big {
		cases = append(cases, c05Case{Seq: gen.Seq{Family: "uniform", N: n, Seed: uint64(n)}, Procs: []int{3, 5, 6, 7, 12}[i%5]})
		cases = append(cases, c05Case{Seq: gen.Seq{Family: "uniform", N: n, Seed: uint64(n)}})
		cases = append(cases, c05Case{Seq: gen.Seq{Family: "tone", N: n, A: n / 7}})
	}
	// one transform beyond 2^24 points in every run (closed-form oracle; about 1 GB, half a minute)
	cases = append(cases, c05Case{Seq: gen.Seq{Family: "transition", N: 1<<24 + 1, A: 1, Pos: []int{(1<<24 + 1) / 3}}})
	enumerate(t, "C05", cases, checkC05)
}

// TestC05Huge (thorough): the upper end of the stated range, n = 10^8 (padded to 2^27) and n = 2^27 exactly,
// on single-transition sequences whose spectrum is known in closed form; ~6 GB, about a minute per case.
func TestC05Huge(t *testing.T) {
	ns := []int{100000000, 1 << 27}
	if v := envInt("VERIF_N", 0); v > 0 {
		ns = []int{v}
	}
	var cases []c05Case
	for _, n := range ns {
		cases = append(cases, c05Case{Seq: gen.Seq{Family: "transition", N: n, A: 1, Pos: []int{n / 3}}})
	}
	// the same oracle at sizes where the transform reference exists too (cross-check of the closed form)
	for _, n := range []int{1<<21 + 1, 3000000} {
		cases = append(cases, c05Case{Seq: gen.Seq{Family: "transition", N: n, A: 0, Pos: []int{n / 5}}})
	}
	enumerate(t, "C05", cases, checkC05)
}

var _ = fmt.Sprint
