package props

import (
	"math"
	"testing"

	rn "github.com/Trisia/randomness"
	"pgregory.net/rapid"

	"verif/harness/ref"
)

// C06: exported Igamc is accurate (1e-12 + 1e-14 a), bounded, exactly 1 for x <= 0, monotone.

type c06Case struct {
	TwoA  int       `json:"two_a"` // shape a = TwoA/2
	X     float64   `json:"x"`
	X2    float64   `json:"x2"` // second abscissa, >= X, for the monotonicity pair
	Kind  string    `json:"kind"`
	Prior []float64 `json:"prior_shapes,omitempty"` // history: shapes evaluated (at the same x) before this call; they may lie outside [0.5, 5000]
}

func checkC06(c c06Case) (Outcome, error) {
	a := float64(c.TwoA) / 2
	tol := 1e-12 + 1e-14*a
	for _, pa := range c.Prior {
		_ = rn.Igamc(pa, c.X) // any earlier call is legal API use and must not influence later results
	}
	got := rn.Igamc(a, c.X)
	cls := []string{"x:" + c.Kind}
	if len(c.Prior) > 0 {
		cls = append(cls, "after-prior-calls")
	}
	switch {
	case a <= 5:
		cls = append(cls, "a<=5")
	case a <= 200:
		cls = append(cls, "a<=200")
	default:
		cls = append(cls, "a<=5000")
	}
	if math.IsNaN(got) || got < 0 || got > 1 {
		return Outcome{NonTrivial: true, Classes: cls}, violation("range", "Igamc(%v,%v) = %v outside [0,1]", a, c.X, got)
	}
	if c.X <= 0 {
		if got != 1 {
			return Outcome{Classes: cls}, violation("nonpositive-x", "Igamc(%v,%v) = %v, want exactly 1", a, c.X, got)
		}
		return Outcome{Classes: append(cls, "x<=0")}, nil
	}
	want := ref.Igamc(a, c.X)
	nearSwitch := math.Abs(c.X-1) <= 1e-3 || math.Abs(c.X-a) <= 1e-3*a
	nt := want > 1e-300 && want < 1
	if nearSwitch {
		cls = append(cls, "near-switch-line")
	}
	out := Outcome{NonTrivial: nt, Classes: cls}
	d := math.Abs(got - want)
	rec("C06").Max("worst_error_over_tolerance", d/tol)
	if d > tol {
		return out, violation("accuracy", "Igamc(%v,%v) = %.17g, reference %.17g, |diff| %.3g > %.3g", a, c.X, got, want, d, tol)
	}
	if c.X2 > c.X {
		got2 := rn.Igamc(a, c.X2)
		if got2 > got+2*tol {
			return out, violation("monotone", "Igamc(%v,.) increases: x=%v -> %.17g, x=%v -> %.17g", a, c.X, got, c.X2, got2)
		}
		if c.X < 1 && c.X2 >= 1 || c.X < a && c.X2 >= a {
			out.Classes = append(out.Classes, "pair-straddles-switch")
		}
	}
	return out, nil
}

func genC06(t *rapid.T) c06Case {
	var twoA int
	switch rapid.IntRange(0, 3).Draw(t, "aclass") {
	case 0:
		twoA = rapid.SampledFrom([]int{1, 2, 3, 4, 6, 9, 15, 16, 32, 64, 128, 255, 256, 10, 12, 5, 7, 1000, 10000}).Draw(t, "twoA")
	case 1:
		twoA = rapid.IntRange(1, 40).Draw(t, "twoA")
	case 2:
		twoA = rapid.IntRange(41, 1000).Draw(t, "twoA")
	default:
		twoA = rapid.IntRange(1001, 10000).Draw(t, "twoA")
	}
	a := float64(twoA) / 2
	delta := func() float64 {
		e := rapid.Float64Range(0.5, 16).Draw(t, "dexp")
		d := math.Pow(10, -e)
		if rapid.Bool().Draw(t, "neg") {
			d = -d
		}
		return d
	}
	u := func(label string) float64 { return float64(rapid.Uint64Range(0, 1<<53-1).Draw(t, label)) / (1 << 53) }
	var x float64
	kind := rapid.SampledFrom([]string{"near-a", "near-1", "bulk", "wide", "low", "zero", "negative", "cutoff", "tiny", "just-below-a", "just-below-a", "just-above-a"}).Draw(t, "xkind")
	switch kind {
	case "near-a":
		x = a * (1 + delta())
	case "near-1":
		x = 1 + delta()
	case "just-below-a": // where the power series needs the most terms (~8.5 sqrt(a))
		x = a - u("jb")*math.Sqrt(a)
		if x <= 0 {
			x = a / 2
		}
	case "just-above-a": // where the continued fraction needs the most iterations
		x = a + u("ja")*math.Sqrt(a)
	case "bulk":
		x = a + (u("z")*20-8)*math.Sqrt(a)
	case "wide":
		x = u("w") * (20*a + 200)
	case "low":
		x = u("l") * 3 * a
	case "zero":
		x = 0
	case "negative":
		x = -u("n") * 100
	case "cutoff": // region where a ln x - x - lgamma(a) is around -709 (underflow cut-off of the prefactor)
		lg, _ := math.Lgamma(a)
		lo, hi := a+1, 20*a+2000
		for i := 0; i < 80; i++ {
			mid := (lo + hi) / 2
			if a*math.Log(mid)-mid-lg > -709.78 {
				lo = mid
			} else {
				hi = mid
			}
		}
		x = lo + (u("c")-0.5)*math.Pow(10, -rapid.Float64Range(-1.5, 9).Draw(t, "cw"))
	case "tiny":
		x = math.Pow(10, -rapid.Float64Range(1, 300).Draw(t, "texp"))
	}
	if x > 20*a+200 {
		x = 20*a + 200
	}
	c := c06Case{TwoA: twoA, X: x, Kind: kind}
	if rapid.IntRange(0, 2).Draw(t, "history") == 0 {
		// earlier calls with other shapes, at power-of-two strides from a (where table-indexed caches collide) and beyond the stated range
		for k := rapid.IntRange(1, 3).Draw(t, "priors"); k > 0; k-- {
			stride := float64(int(1) << uint(rapid.IntRange(6, 17).Draw(t, "stride_exp")))
			if rapid.Bool().Draw(t, "half") {
				stride /= 2
			}
			c.Prior = append(c.Prior, a+stride*float64(rapid.IntRange(1, 3).Draw(t, "mult")))
		}
	}
	// second abscissa: a neighbour (a few ulps up to a relative 1e-3) or a far point
	switch rapid.IntRange(0, 2).Draw(t, "pair") {
	case 0:
		c.X2 = x
		for i := rapid.IntRange(1, 4).Draw(t, "ulps"); i > 0; i-- {
			c.X2 = math.Nextafter(c.X2, math.Inf(1))
		}
	case 1:
		c.X2 = x + math.Abs(x)*math.Pow(10, -rapid.Float64Range(0.5, 12).Draw(t, "rel"))
	default:
		c.X2 = x + u("far")*(a+10)
	}
	if c.X2 > 20*a+200 {
		c.X2 = 20*a + 200
	}
	return c
}

func TestC06(t *testing.T) { runProp(t, "C06", genC06, checkC06) }

// TestC06Sweep: every shape k/2 for k = 1..600 (and the large documented ones) exactly ON the two switch-over lines
// x = 1 and x = a, and one ulp to either side; x = 0 and the first positive double.
func TestC06Sweep(t *testing.T) {
	var cases []c06Case
	ks := []int{}
	for k := 1; k <= 600; k++ {
		ks = append(ks, k)
	}
	ks = append(ks, 1000, 2000, 4001, 8191, 8192, 9999, 10000)
	for _, k := range ks {
		a := float64(k) / 2
		xs := []float64{1, math.Nextafter(1, 0), math.Nextafter(1, 2), a, math.Nextafter(a, 0), math.Nextafter(a, 2*a+1), 0, math.SmallestNonzeroFloat64,
			a - 1, a + 1, a - 2, a + 2, a - 0.5, a + 0.5, a / 2, 2 * a, math.Floor(a), math.Ceil(a), a - math.Sqrt(a), a + math.Sqrt(a)} // lattice points a continued fraction or recurrence starts from
		if k <= 12 { // tiny positive arguments: Q(1/2, x) = erfc(sqrt x) leaves 1 by 1e-8 already at x = 1e-16
			xs = append(xs, 1e-10, 1e-13, 1e-15, 2.3e-16, 1.1e-16, 1e-16, 1e-17, 1e-18, 1e-20, 1e-22, 1e-24, 1e-30, 1e-100)
		}
		for _, x := range xs {
			cases = append(cases, c06Case{TwoA: k, X: x, X2: math.Nextafter(x, math.Inf(1)), Kind: "on-switch-line"})
		}
	}
	enumerate(t, "C06", cases, checkC06)
}
