package props

import (
	"fmt"
	"os"
	"path/filepath"
	"testing"

	rn "github.com/Trisia/randomness"
	"github.com/Trisia/randomness/detect"
	"pgregory.net/rapid"

	"verif/harness/gen"
)

// C15: byte entry point = bit entry point on the MSB-first expansion = registry runner with the
// documented defaults (bit-identical); registry order; Round15 / Round12; ReadGroup; B2bitArr/B2Byte.

type c15Case struct {
	Kind  string  `json:"kind"` // entry | round | readgroup | b2
	Test  int     `json:"test,omitempty"`
	Param int     `json:"param,omitempty"`
	Seq   gen.Seq `json:"seq"` // N is a multiple of 8
}

func checkC15(c c15Case) (Outcome, error) {
	bits := c.Seq.Expand()
	data := gen.Pack(bits)
	out := Outcome{Classes: []string{"kind:" + c.Kind, "family:" + c.Seq.Family}, NonTrivial: len(data)%2 == 1 || c.Seq.Family != "uniform"}
	switch c.Kind {
	case "entry":
		t := tests[c.Test]
		out.Classes = append(out.Classes, "test:"+t.Key)
		vb := t.Bytes(data, c.Param)
		ve := t.Bits(bits, c.Param)
		if !sameBits(vb, ve) {
			return out, violation("bytes-vs-bits:"+t.Key, "%s param=%d on %d bytes: byte entry point %v, bit entry point on the MSB-first expansion %v", t.Key, c.Param, len(data), vb, ve)
		}
		if t.Wrapper != nil {
			if vw, ok := t.Wrapper(bits, c.Param); ok && !sameBits(vw, ve) {
				return out, violation("wrapper:"+t.Key, "%s param=%d: convenience wrapper %v, parameterised entry point %v", t.Key, c.Param, vw, ve)
			}
		}
		if c.Param == t.Default || len(t.Params) == 1 {
			out.Classes = append(out.Classes, "default-vs-runner")
			for _, run := range []rn.TestFunc{t.Runner, rn.TestMethodArr[t.Idx].Runner} {
				r := run(data)
				vr := resultVals(r, t.Idx)
				if !sameBits(vr, vb) {
					return out, violation("runner:"+t.Key, "registry item %d (%s): runner gives %v, the standard's default parameter (%d) gives %v", t.Idx+1, t.Key, vr, t.Default, vb)
				}
			}
		}
	case "round":
		if len(rn.TestMethodArr) != 15 {
			return out, violation("registry-len", "registry has %d entries", len(rn.TestMethodArr))
		}
		r15 := detect.Round15(data)
		r12 := detect.Round12(data)
		if len(r15) != 15 || len(r12) != 12 {
			return out, violation("round-len", "Round15 returned %d results, Round12 %d", len(r15), len(r12))
		}
		for i, t := range tests {
			want := t.Bytes(data, t.Default)
			if got := resultVals(r15[i], i); !sameBits(got, want) {
				return out, violation("round15", "Round15 result %d is %v, test %d of the standard (%s, default parameter) gives %v", i+1, got, i+1, t.Key, want)
			}
			if i < 12 {
				if got := resultVals(r12[i], i); !sameBits(got, want) {
					return out, violation("round12", "Round12 result %d is %v, test %d of the standard (%s) gives %v", i+1, got, i+1, t.Key, want)
				}
				if r12[i].Pass != r15[i].Pass {
					return out, violation("round12", "Round12/Round15 Pass flags differ for item %d", i+1)
				}
			}
		}
		// results are owned by the caller too
		for _, r := range r15 {
			r.P, r.Q, r.P2, r.Q2, r.Pass, r.Name = -1, -1, -1, -1, !r.Pass, "x"
		}
		for i, r := range detect.Round15(data) {
			if want := tests[i].Bytes(data, tests[i].Default); !sameBits(resultVals(r, i), want) || r.Name == "x" {
				return out, violation("round-aliasing", "Round15 result %d changed after the caller overwrote the results of an earlier call", i+1)
			}
		}
	case "readgroup":
		dir := envOr("VERIF_SCRATCH", os.TempDir())
		f := filepath.Join(dir, fmt.Sprintf("rg-%d.bin", len(data)))
		if err := os.WriteFile(f, data, 0o600); err != nil {
			return Outcome{Skip: "cannot write scratch file"}, nil
		}
		defer os.Remove(f)
		got := rn.ReadGroup(f)
		if len(got) != len(bits) {
			return out, violation("readgroup", "ReadGroup returned %d bits for a %d-byte file", len(got), len(data))
		}
		for i := range bits {
			if got[i] != bits[i] {
				return out, violation("readgroup", "ReadGroup bit %d differs from the MSB-first expansion", i)
			}
		}
	case "b2":
		got := rn.B2bitArr(data)
		if len(got) != len(bits) {
			return out, violation("b2bitarr", "B2bitArr returned %d bits for %d bytes", len(got), len(data))
		}
		for i := range bits {
			if got[i] != bits[i] {
				return out, violation("b2bitarr", "B2bitArr bit %d differs from the MSB-first expansion", i)
			}
		}
		for i := range data {
			if rn.B2Byte(bits[i*8:i*8+8]) != data[i] {
				return out, violation("b2byte", "B2Byte(bits[%d:%d]) = %#x, want %#x", i*8, i*8+8, rn.B2Byte(bits[i*8:i*8+8]), data[i])
			}
			e := rn.B2bit(data[i])
			for j := 0; j < 8; j++ {
				if e[j] != bits[i*8+j] {
					return out, violation("b2bit", "B2bit(%#x) bit %d wrong", data[i], j)
				}
			}
		}
		// what the library returns belongs to the caller: scribbling over it must not change later expansions
		for i := range data {
			e := rn.B2bit(data[i])
			for j := range e {
				e[j] = j%3 == 0
			}
		}
		for j := range got {
			got[j] = j%3 == 0
		}
		again := rn.B2bitArr(data)
		for i := range bits {
			if again[i] != bits[i] {
				return out, violation("b2-aliasing", "after the caller overwrote slices returned by B2bit/B2bitArr, B2bitArr expands byte %d (%#x) wrongly: returned slices alias shared state", i/8, data[i/8])
			}
		}
		for i := range data {
			e := rn.B2bit(data[i])
			for j := 0; j < 8; j++ {
				if e[j] != bits[i*8+j] {
					return out, violation("b2-aliasing", "after the caller overwrote an earlier result, B2bit(%#x) bit %d is wrong: returned slices alias shared state", data[i], j)
				}
			}
		}
	}
	return out, nil
}

func genC15(t *rapid.T) c15Case {
	c := c15Case{Kind: rapid.SampledFrom([]string{"entry", "entry", "entry", "entry", "entry", "round", "readgroup", "b2"}).Draw(t, "kind")}
	minBytes := 128
	switch c.Kind {
	case "entry":
		c.Test = rapid.IntRange(0, 14).Draw(t, "test")
		td := tests[c.Test]
		c.Param = rapid.SampledFrom(td.Params).Draw(t, "param")
		if rapid.Bool().Draw(t, "default") {
			c.Param = td.Default
		}
		minBytes = max(16, (minBitsFor(td, c.Param)+7)/8)
	case "round":
		minBytes = 1121
	case "readgroup", "b2":
		minBytes = 1
	}
	nb := uniformInt(t, minBytes, max(minBytes, 4000), "nbytes")
	if rapid.IntRange(0, 7).Draw(t, "short") == 0 { // the shortest admissible inputs
		nb = minBytes + rapid.IntRange(0, 40).Draw(t, "dshort")
	}
	if rapid.IntRange(0, 9).Draw(t, "boundary_len") == 0 { // byte lengths at the run-length cut-off / regime boundaries (40*2^j, 784, 93750, ...)
		b := rapid.SampledFrom([]int{40, 80, 160, 320, 640, 1280, 2560, 5120, 10240, 784, 125, 1250}).Draw(t, "blen") + rapid.IntRange(-1, 1).Draw(t, "dlen")
		if rapid.Bool().Draw(t, "chunky") { // multiples of typical internal chunk sizes (512 .. 65536 bytes), give or take a byte
			b = rapid.IntRange(1, 4).Draw(t, "chunks")*(rapid.SampledFrom([]int{512, 1024, 2048, 4096, 8192, 16384, 32768, 65536}).Draw(t, "chunk")+rapid.IntRange(-1, 1).Draw(t, "dchunk")) + rapid.IntRange(-1, 1).Draw(t, "dlen2")
			if b > 70000 && c.Kind == "entry" && tests[c.Test].Key == "lincomp" {
				b = 4096 + rapid.IntRange(-1, 1).Draw(t, "dlen3")
			}
		}
		if b >= minBytes {
			nb = b
		}
	}
	if (c.Kind == "readgroup" || c.Kind == "b2") && rapid.IntRange(0, 3).Draw(t, "bigfile") == 0 { // files larger than a 10^6-bit sample
		nb = rapid.SampledFrom([]int{124999, 125000, 125001, 125008, 250000, 0}).Draw(t, "filebytes")
		if nb == 0 {
			nb = uniformInt(t, 100000, 400000, "filebytes_any")
		}
	}
	if rapid.IntRange(0, 30).Draw(t, "big") == 0 && thorough() {
		nb = 125000
	}
	c.Seq = gen.DrawSeq(t, nb*8, []string{"uniform", "uniform", "biased", "periodic", "markov", "constant", "sparse", "runs", "explicit", "bytewords", "bytewords", "transition", "longrun", "walk"})
	return c
}

func TestC15(t *testing.T) { runProp(t, "C15", genC15, checkC15) }

// TestC15Sweep: every test x every documented parameter on odd and even byte lengths; the full round on 125000 bytes.
func TestC15Sweep(t *testing.T) {
	var cases []c15Case
	for _, td := range tests {
		for _, p := range td.Params {
			for i, nb := range []int{1121, 1250, 2501, 4000} {
				if nb*8 < minBitsFor(td, p) {
					continue
				}
				cases = append(cases, c15Case{Kind: "entry", Test: td.Idx, Param: p, Seq: gen.Seq{Family: "uniform", N: nb * 8, Seed: uint64(100*td.Idx + i)}})
			}
		}
	}
	// large pattern counts in the byte fast paths (up to 125000 bytes and beyond; constant and heavily biased content)
	for _, q := range []gen.Seq{{Family: "constant", N: 1000000, A: 1}, {Family: "constant", N: 1000000, A: 0}, {Family: "biased", N: 1000000, Seed: 3, F: 0.9},
		{Family: "biased", N: 1000000, Seed: 4, F: 0.05}, {Family: "periodic", N: 1000000, Bits: "00010001"}, {Family: "uniform", N: 4800000, Seed: 5}, {Family: "constant", N: 8 * 70000, A: 1}} {
		for _, m := range []int{2, 4, 8} {
			cases = append(cases, c15Case{Kind: "entry", Test: 2, Param: m, Seq: q})
		}
		cases = append(cases, c15Case{Kind: "entry", Test: 0, Seq: q})
	}
	// every test with its default parameter on a sample just above 2^20 bits whose byte count is odd (131073 bytes), after and before smaller ones
	for _, nb := range []int{131073, 1250, 131073} {
		for _, td := range tests {
			cases = append(cases, c15Case{Kind: "entry", Test: td.Idx, Param: td.Default, Seq: gen.Seq{Family: "uniform", N: nb * 8, Seed: uint64(900 + td.Idx)}})
		}
	}
	cases = append(cases, c15Case{Kind: "round", Seq: gen.Seq{Family: "uniform", N: 1000000, Seed: 77}})
	cases = append(cases, c15Case{Kind: "round", Seq: gen.Seq{Family: "uniform", N: 20000, Seed: 78}})
	for i, n := range []int{8, 1000000, 1000008, 2000000, 10000000} {
		cases = append(cases, c15Case{Kind: "readgroup", Seq: gen.Seq{Family: "uniform", N: n, Seed: uint64(79 + i)}})
	}
	enumerate(t, "C15", cases, checkC15)
}
