package props

import (
	"math"
	"sort"
	"testing"

	"verif/harness/gen"
	"verif/harness/ref"
)

// Pass == (P >= 0.01) can only be wrong when P is (almost) exactly 0.01, which random inputs never reach.
// For the tests whose P-value is a closed-form function of one or two integer counts, the counts that put P
// within ~1e-6 of alpha are found by search on the formula (oracle inversion), and sequences with exactly those
// counts are constructed.  The judged relation is still the property's: the runner's Pass flag versus the
// runner's own P-value.

type boundaryHit struct {
	dist float64
	c    c16Case
}

func passBoundaryCases(perTest int) []c16Case {
	const alpha = 0.01
	var all []c16Case
	keep := func(hits []boundaryHit) {
		sort.Slice(hits, func(i, j int) bool { return hits[i].dist < hits[j].dist })
		if len(hits) > perTest {
			hits = hits[:perTest]
		}
		for _, h := range hits {
			all = append(all, h.c)
		}
	}
	two := func(stat float64) float64 { return math.Erfc(math.Abs(stat) / math.Sqrt2) }
	// monobit: P = erfc(|S|/sqrt(2n)), S = 2*ones - n
	var hits []boundaryHit
	for nb := 100; nb <= 40000; nb++ {
		n := 8 * nb
		s0 := int(2.5758293035489 * math.Sqrt(float64(n)))
		for s := s0 - 3; s <= s0+4; s++ {
			if (n+s)%2 != 0 || s <= 0 {
				continue
			}
			p := two(float64(s) / math.Sqrt(float64(n)))
			if d := math.Abs(p - alpha); d < 3e-6 {
				for _, sign := range []int{1, -1} {
					hits = append(hits, boundaryHit{d, c16Case{Test: 0, Runner: true, Seq: gen.Seq{Family: "exactones", N: n, A: (n + sign*s) / 2, Seed: uint64(n)}}})
				}
			}
		}
	}
	keep(hits)
	// autocorrelation d=16 (runner default): P = erfc(|2A-m|/sqrt(2m)), m = n-16
	hits = nil
	for nb := 100; nb <= 40000; nb++ {
		n, d := 8*nb, 16
		m := n - d
		s0 := int(2.5758293035489 * math.Sqrt(float64(m)))
		for s := s0 - 3; s <= s0+4; s++ {
			if (m+s)%2 != 0 || s <= 0 {
				continue
			}
			p := two(float64(s) / math.Sqrt(float64(m)))
			if dd := math.Abs(p - alpha); dd < 3e-6 {
				hits = append(hits, boundaryHit{dd, c16Case{Test: 8, Param: 16, Runner: true, Seq: gen.Seq{Family: "autocorrA", N: n, A: (m + s) / 2, B: d, Seed: uint64(n)}}},
					boundaryHit{dd, c16Case{Test: 8, Param: 16, Runner: true, Seq: gen.Seq{Family: "autocorrA", N: n, A: (m - s) / 2, B: d, Seed: uint64(n + 1)}}})
			}
		}
	}
	keep(hits)
	// binary derivative k=7 (runner default): P = erfc(|2c-m|/sqrt(2m)), m = n-7
	hits = nil
	for nb := 100; nb <= 40000; nb++ {
		n, k := 8*nb, 7
		m := n - k
		s0 := int(2.5758293035489 * math.Sqrt(float64(m)))
		for s := s0 - 3; s <= s0+4; s++ {
			if (m+s)%2 != 0 || s <= 0 {
				continue
			}
			p := two(float64(s) / math.Sqrt(float64(m)))
			if dd := math.Abs(p - alpha); dd < 3e-6 {
				hits = append(hits, boundaryHit{dd, c16Case{Test: 7, Param: 7, Runner: true, Seq: gen.Seq{Family: "derivA", N: n, A: (m + s) / 2, B: k, Seed: uint64(n)}}})
			}
		}
	}
	keep(hits)
	// runs with pi = 1/2 exactly: P = erfc(|Vobs - n/2| * 2 / sqrt(2n))
	hits = nil
	for nb := 100; nb <= 40000; nb++ {
		n := 8 * nb
		d0 := int(2.5758293035489 * math.Sqrt(float64(n)) / 2)
		for dv := d0 - 3; dv <= d0+4; dv++ {
			p := math.Erfc(float64(dv) * 2 / math.Sqrt(float64(2*n)))
			if dd := math.Abs(p - alpha); dd < 3e-6 {
				for _, vobs := range []int{n/2 + dv, n/2 - dv} {
					if vobs%2 == 0 && vobs >= 2 && vobs <= n {
						hits = append(hits, boundaryHit{dd, c16Case{Test: 4, Runner: true, Seq: gen.Seq{Family: "exactruns", N: n, A: vobs, Seed: uint64(n)}}})
					}
				}
			}
		}
	}
	keep(hits)
	// cumulative sums (forward): P(n, Z) by the series; for each n find the Z where P crosses alpha
	hits = nil
	for nb := 100; nb <= 20000; nb++ {
		n := 8 * nb
		lo, hi := 1, n // P increasing in Z? P decreases as Z grows: find smallest Z with P < alpha
		for lo < hi {
			mid := (lo + hi) / 2
			if ref.CusumP(n, mid) < alpha {
				hi = mid
			} else {
				lo = mid + 1
			}
		}
		for z := lo - 1; z <= lo; z++ {
			if z < 1 {
				continue
			}
			if dd := math.Abs(ref.CusumP(n, z) - alpha); dd < 3e-6 {
				hits = append(hits, boundaryHit{dd, c16Case{Test: 10, Param: 1, Runner: true, Seq: gen.Seq{Family: "walk", N: n, A: z, Seed: uint64(n)}}})
			}
		}
	}
	keep(hits)
	return all
}

// TestC16PassBoundary: inputs whose P-value lies within ~1e-6 of 0.01 (both sides) for monobit, runs, binary derivative,
// autocorrelation and cumulative sums, through the registry runners.
func TestC16PassBoundary(t *testing.T) {
	cases := passBoundaryCases(envInt("VERIF_PER_TEST", 60))
	near := 0
	for _, c := range cases {
		td := tests[c.Test]
		v := td.Bits(c.Seq.Expand(), c.Param)
		if math.Abs(v[0]-0.01) < 3e-6 {
			near++
		}
	}
	rec("C16").Class("pass-boundary/|P-0.01|<3e-6", near)
	enumerate(t, "C16", cases, checkC16)
}
