package props

import (
	"bufio"
	"fmt"
	"math"
	"testing"

	rn "github.com/Trisia/randomness"
	"github.com/Trisia/randomness/detect"
	"pgregory.net/rapid"

	"verif/harness/gen"
	"verif/harness/ref"
)

// C11: single-shot detection = poker test with the length-appropriate m on exactly numByte bytes.

type c11Case struct {
	NumByte    int     `json:"num_byte"`
	Kind       string  `json:"kind"`
	Seed       uint64  `json:"seed,omitempty"`
	Alpha      []int   `json:"alphabet,omitempty"` // byte or nibble alphabet
	Skew       float64 `json:"skew,omitempty"`
	M          int     `json:"skew_m,omitempty"`
	PriorPoker int     `json:"prior_poker_bytes,omitempty"` // history: the poker test was called before on this many high-valued bytes (m = 8 and m = 4)
	Delivery   string  `json:"delivery,omitempty"`          // "" more bytes available than requested | "exact" the source ends right after the sample | "exact+eof" the final bytes arrive together with io.EOF
	Chunk      int     `json:"chunk,omitempty"`             // > 0: the source returns at most this many bytes per Read
}

func (c c11Case) data() []byte {
	n := c.NumByte
	r := gen.NewRng(c.Seed)
	out := make([]byte, n)
	switch c.Kind {
	case "uniform":
		return r.Bytes(n)
	case "constant":
		for i := range out {
			out[i] = byte(c.Seed)
		}
	case "byteAlphabet":
		for i := range out {
			out[i] = byte(c.Alpha[r.Intn(len(c.Alpha))])
		}
	case "nibbleAlphabet":
		for i := range out {
			out[i] = byte(c.Alpha[r.Intn(len(c.Alpha))]&15)<<4 | byte(c.Alpha[r.Intn(len(c.Alpha))]&15)
		}
	case "skewed": // with probability Skew an M-bit pattern is forced to 0: pushes the poker P for that m towards / across 0.01
		bits := make([]bool, n*8)
		for i := range bits {
			bits[i] = r.Uint64()&1 == 1
		}
		for i := 0; i+c.M <= len(bits); i += c.M {
			if r.Float() < c.Skew {
				for j := 0; j < c.M; j++ {
					bits[i+j] = false
				}
			}
		}
		return gen.Pack(bits)
	}
	return out
}

func checkC11(c c11Case) (Outcome, error) {
	data := c.data()
	if c.PriorPoker > 0 {
		short := make([]byte, c.PriorPoker)
		for i := range short {
			short[i] = byte(255 - i%7)
		}
		_ = rn.Poker(short)
		_, _ = rn.PokerTestBytes(short, 4)
	}
	// more bytes are available than requested: exactly numByte must be consumed
	r := gen.NewReader(append(append([]byte{}, data...), gen.NewRng(c.Seed^1).Bytes(64)...))
	if c.Delivery != "" {
		r = gen.NewReader(append([]byte{}, data...))
		r.EOFWithData = c.Delivery == "exact+eof"
	}
	if c.Chunk > 0 {
		r.Plan = []int{c.Chunk}
	}
	out := Outcome{Classes: []string{"content:" + c.Kind, "delivery:" + c.Delivery}}
	var v bool
	var err error
	if c.Delivery == "bufio" {
		// the source is a *bufio.Reader that already holds the sample (and more): the capture, then a second capture of 64 zero
		// bytes, then a marker byte. What the detection consumed is observed through what the next reads deliver.
		stream := append(append(append([]byte{}, data...), make([]byte, 64)...), 0xA7, 0x5C)
		br := bufio.NewReaderSize(gen.NewReader(stream), 1<<20)
		_, _ = br.Peek(1)
		v, err = detect.SingleDetect(br, c.NumByte)
		v2, _ := detect.SingleDetect(br, 64)
		m0, _ := br.ReadByte()
		m1, _ := br.ReadByte()
		if v2 || m0 != 0xA7 || m1 != 0x5C {
			return out, violation("consumed", "SingleDetect(numByte=%d) on a *bufio.Reader did not consume exactly numByte bytes: the following capture of 64 zero bytes gave %v and the next two bytes are %#x %#x (want false, 0xa7 0x5c)", c.NumByte, v2, m0, m1)
		}
	} else {
		v, err = detect.SingleDetect(r, c.NumByte)
		if got := r.Consumed(); got != c.NumByte {
			return out, violation("consumed", "SingleDetect(numByte=%d) consumed %d bytes from the source", c.NumByte, got)
		}
	}
	if c.NumByte < 16 {
		out.Classes = append(out.Classes, "numByte<16")
		out.NonTrivial = c.NumByte >= 14
		if v || err == nil {
			return out, violation("short-accepted", "SingleDetect(numByte=%d) returned (%v, %v); fewer than 16 bytes must give (false, error)", c.NumByte, v, err)
		}
		return out, nil
	}
	if err != nil {
		return out, violation("error", "SingleDetect(numByte=%d) returned error %v on a healthy source", c.NumByte, err)
	}
	bits := gen.Unpack(data)
	n := len(bits)
	mStar := 4
	if n < 320 {
		mStar = 2
	} else if n >= 10240 {
		mStar = 8
	}
	out.Classes = append(out.Classes, fmt.Sprintf("m*=%d", mStar))
	ps := map[int]float64{}
	for _, m := range []int{2, 4, 8} {
		if n/m >= 1 {
			ps[m] = ref.Poker(bits, m)
		}
	}
	p := ps[mStar]
	if math.Abs(p-0.01) < 1e-8 {
		return Outcome{Skip: "P within 1e-8 of 0.01"}, nil
	}
	want := p >= 0.01
	agree := (ps[2] >= 0.01) == (ps[4] >= 0.01) && (ps[4] >= 0.01) == (ps[8] >= 0.01)
	out.NonTrivial = !agree || (p >= 0.001 && p <= 0.1)
	if !agree {
		out.Classes = append(out.Classes, "m-rule-matters")
	}
	if n == 320 || n == 312 || n == 10240 || n == 10232 {
		out.Classes = append(out.Classes, "length-at-m-boundary")
	}
	if v != want {
		return out, violation("verdict", "SingleDetect(numByte=%d, %s) = %v; poker P with m=%d is %.6g (m=2: %.4g, m=4: %.4g, m=8: %.4g)", c.NumByte, c.Kind, v, mStar, p, ps[2], ps[4], ps[8])
	}
	return out, nil
}

func genC11(t *rapid.T) c11Case {
	var nb int
	switch rapid.IntRange(0, 5).Draw(t, "nclass") {
	case 0:
		nb = rapid.SampledFrom([]int{0, 1, 14, 15, 16, 17, 38, 39, 40, 41, 1278, 1279, 1280, 1281, 4096}).Draw(t, "numbyte")
	case 1:
		nb = rapid.IntRange(0, 60).Draw(t, "numbyte")
	case 2:
		nb = rapid.IntRange(1200, 1400).Draw(t, "numbyte")
	case 3:
		nb = rapid.SampledFrom([]int{10000, 125000}).Draw(t, "numbyte")
	default:
		nb = uniformInt(t, 0, 4096, "numbyte")
	}
	c := c11Case{NumByte: nb, Seed: rapid.Uint64().Draw(t, "seed")}
	if rapid.IntRange(0, 2).Draw(t, "history") == 0 {
		c.PriorPoker = rapid.SampledFrom([]int{1, 16, 100, 255, 256, 1000}).Draw(t, "prior_poker")
	}
	c.Delivery = rapid.SampledFrom([]string{"", "", "", "exact", "exact+eof", "bufio"}).Draw(t, "delivery")
	if rapid.IntRange(0, 3).Draw(t, "chunked") == 0 {
		c.Chunk = rapid.SampledFrom([]int{1, 2, 7, 15, 16, 17, 512, 4096}).Draw(t, "chunk")
	}
	c.Kind = rapid.SampledFrom([]string{"uniform", "uniform", "constant", "byteAlphabet", "nibbleAlphabet", "skewed", "skewed", "skewed"}).Draw(t, "kind")
	switch c.Kind {
	case "byteAlphabet":
		k := rapid.IntRange(1, 200).Draw(t, "k")
		for i := 0; i < k; i++ {
			c.Alpha = append(c.Alpha, rapid.IntRange(0, 255).Draw(t, "sym"))
		}
	case "nibbleAlphabet":
		k := rapid.IntRange(1, 14).Draw(t, "k")
		for i := 0; i < k; i++ {
			c.Alpha = append(c.Alpha, rapid.IntRange(0, 15).Draw(t, "sym"))
		}
		if rapid.IntRange(0, 3).Draw(t, "classic") == 0 {
			c.Alpha = []int{1, 0xB} // 2-bit patterns uniform, 4-bit patterns not
		}
	case "skewed":
		c.M = rapid.SampledFrom([]int{2, 4, 8}).Draw(t, "m")
		// skew of the order that moves P to ~0.01: about 3.3 sigma of the pattern count
		N := float64(max(nb*8/c.M, 1))
		base := 3.0 / math.Sqrt(N) * math.Sqrt(float64(int(1)<<uint(c.M)))
		c.Skew = base * rapid.Float64Range(0.2, 2.5).Draw(t, "skewmult") / float64(int(1)<<uint(c.M)) * 4
		if c.Skew > 1 {
			c.Skew = 1
		}
	}
	return c
}

func TestC11(t *testing.T) { runProp(t, "C11", genC11, checkC11) }

// TestC11Sweep: every numByte in VERIF_LO..VERIF_HI with uniform and skewed content.
func TestC11Sweep(t *testing.T) {
	var cases []c11Case
	for nb := envInt("VERIF_LO", 0); nb <= envInt("VERIF_HI", 200); nb++ {
		cases = append(cases, c11Case{NumByte: nb, Kind: "uniform", Seed: uint64(nb)})
		cases = append(cases, c11Case{NumByte: nb, Kind: "nibbleAlphabet", Seed: uint64(nb), Alpha: []int{1, 0xB}})
		cases = append(cases, c11Case{NumByte: nb, Kind: "constant", Seed: 0})
	}
	if envInt("VERIF_LO", 0) == 0 {
		for _, nb := range []int{65535, 65536, 65537, 65600, 65700, 131072, 1 << 20} {
			for _, v := range []uint64{0x00, 0xa5, 0xff} {
				cases = append(cases, c11Case{NumByte: nb, Kind: "constant", Seed: v})
			}
			cases = append(cases, c11Case{NumByte: nb, Kind: "uniform", Seed: uint64(nb)}, c11Case{NumByte: nb, Kind: "byteAlphabet", Seed: uint64(nb), Alpha: []int{0, 0, 0, 0, 0, 0, 0, 0, 0, 1, 2, 3}})
		}
	}
	enumerate(t, "C11", cases, checkC11)
}
