package props

import (
	"math"
	"testing"

	rn "github.com/Trisia/randomness"
	"pgregory.net/rapid"

	"verif/harness/ref"
)

// C06, dense windows: Igamc evaluated at N equally spaced consecutive abscissae.  Pointwise cases (c06_test.go) cannot see a
// defect that strikes a sparse, irregular set of arguments (an iteration cap reached for one x in ten thousand, a wrong branch for
// isolated doubles); a window of 10^4 neighbours, judged for range, NaN and monotonicity at every point (no reference needed for
// those), for accuracy against the big-float reference at 16 sampled points and against a float64 closed form (small a) at every point.

type c06WinCase struct {
	TwoA int     `json:"two_a"`
	X0   float64 `json:"x0"`
	Step float64 `json:"step"`
	N    int     `json:"n"`
	Kind string  `json:"kind"`
}

// fastQ: float64 closed form of Q(k/2, x), all terms positive; relative error below (k/2+8) * 4 ulp.
func fastQ(twoA int, x float64) float64 {
	emx := math.Exp(-x)
	if twoA%2 == 0 {
		n := twoA / 2
		term, sum := 1.0, 0.0
		for k := 0; k < n; k++ {
			if k > 0 {
				term *= x / float64(k)
			}
			sum += term
		}
		return sum * emx
	}
	j := (twoA - 1) / 2
	sq := math.Sqrt(x)
	term := 2 * sq / math.SqrtPi // x^(1/2)/Gamma(3/2)
	sum := 0.0
	for k := 0; k < j; k++ {
		if k > 0 {
			term *= x / (float64(k) + 0.5)
		}
		sum += term
	}
	return math.Erfc(sq) + sum*emx
}

func checkC06Win(c c06WinCase) (Outcome, error) {
	a := float64(c.TwoA) / 2
	tol := 1e-12 + 1e-14*a
	fastBound := (a + 8) * 4 * 2.3e-16
	useFast := c.TwoA <= 256
	cls := []string{"window:" + c.Kind}
	if useFast {
		cls = append(cls, "window-closed-form-at-every-point")
	}
	stride := c.N / 16
	if stride < 1 {
		stride = 1
	}
	prev, prevX := math.NaN(), 0.0
	nt := false
	straddle := false
	for i := 0; i < c.N; i++ {
		x := c.X0 + float64(i)*c.Step
		got := rn.Igamc(a, x)
		if math.IsNaN(got) || got < 0 || got > 1 {
			return Outcome{NonTrivial: true, Classes: cls}, violation("range", "Igamc(%v,%v) = %v outside [0,1] (point %d of the window)", a, x, got, i)
		}
		if x <= 0 {
			if got != 1 {
				return Outcome{Classes: cls}, violation("nonpositive-x", "Igamc(%v,%v) = %v, want exactly 1", a, x, got)
			}
			prev, prevX = got, x
			continue
		}
		if i > 0 {
			if got > prev+2*tol {
				return Outcome{NonTrivial: true, Classes: cls}, violation("monotone", "Igamc(%v,.) increases: x=%.17g -> %.17g, x=%.17g -> %.17g", a, prevX, prev, x, got)
			}
			if prevX < 1 && x >= 1 || prevX < a && x >= a {
				straddle = true
			}
		}
		if got > 1e-300 && got < 1 {
			nt = true
		}
		if i%stride == 0 {
			want := ref.Igamc(a, x)
			d := math.Abs(got - want)
			rec("C06").Max("worst_error_over_tolerance", d/tol)
			if d > tol {
				return Outcome{NonTrivial: true, Classes: cls}, violation("accuracy", "Igamc(%v,%.17g) = %.17g, reference %.17g, |diff| %.3g > %.3g", a, x, got, want, d, tol)
			}
			if useFast && math.Abs(fastQ(c.TwoA, x)-want) > fastBound {
				useFast = false // the closed form is only trusted while it agrees with the big-float reference inside its own bound
				rec("C06").Class("window-closed-form-distrusted", 1)
			}
		}
		if useFast {
			if d := math.Abs(got - fastQ(c.TwoA, x)); d > tol+fastBound {
				want := ref.Igamc(a, x) // decide with the exact reference
				if dd := math.Abs(got - want); dd > tol {
					return Outcome{NonTrivial: true, Classes: cls}, violation("accuracy", "Igamc(%v,%.17g) = %.17g, reference %.17g, |diff| %.3g > %.3g (point %d of the window)", a, x, got, want, dd, tol, i)
				}
			}
		}
		prev, prevX = got, x
	}
	rec("C06").Class("window-points-evaluated", c.N)
	if straddle {
		cls = append(cls, "window-straddles-switch")
	}
	return Outcome{NonTrivial: nt, Classes: cls}, nil
}

func genC06Win(t *rapid.T) c06WinCase {
	var twoA int
	switch rapid.IntRange(0, 3).Draw(t, "aclass") {
	case 0:
		twoA = rapid.IntRange(1, 4).Draw(t, "twoA") // a <= 2: the continued fraction starts right at x = 1 and converges slowest there
	case 1:
		twoA = rapid.SampledFrom([]int{1, 2, 3, 4, 5, 6, 7, 8, 9, 10, 12, 15, 16, 32, 64, 128, 255, 256, 1000, 10000}).Draw(t, "twoA")
	case 2:
		twoA = rapid.IntRange(1, 64).Draw(t, "twoA")
	default:
		twoA = rapid.IntRange(65, 10000).Draw(t, "twoA")
	}
	a := float64(twoA) / 2
	u := func(label string) float64 { return float64(rapid.Uint64Range(0, 1<<53-1).Draw(t, label)) / (1 << 53) }
	sw := math.Max(1, a) // the continued fraction is used for x >= sw
	n := rapid.IntRange(2000, 20000).Draw(t, "n")
	kind := rapid.SampledFrom([]string{"cf-onset", "cf-onset", "series-end", "across-switch", "across-1", "bulk", "wide"}).Draw(t, "kind")
	var x0, span float64
	switch kind {
	case "cf-onset": // just above the switch-over: most iterations of the continued fraction
		x0 = sw * (1 + 0.5*u("o"))
		span = sw * math.Pow(10, -rapid.Float64Range(0.5, 9).Draw(t, "w"))
	case "series-end": // just below it: most terms of the series
		x0 = sw * (1 - 0.5*u("o"))
		span = sw * math.Pow(10, -rapid.Float64Range(0.5, 9).Draw(t, "w"))
		if x0+span > sw {
			span = sw - x0
		}
	case "across-switch":
		span = sw * math.Pow(10, -rapid.Float64Range(0.5, 12).Draw(t, "w"))
		x0 = sw - span*u("o")
	case "across-1":
		span = math.Pow(10, -rapid.Float64Range(0.5, 12).Draw(t, "w"))
		x0 = 1 - span*u("o")
	case "bulk":
		x0 = a + (u("z")*20-8)*math.Sqrt(a)
		if x0 < 0 {
			x0 = 0
		}
		span = math.Sqrt(a) * math.Pow(10, -rapid.Float64Range(0, 6).Draw(t, "w"))
	default:
		x0 = u("w0") * (10*a + 100)
		span = u("w1") * (10*a + 100)
	}
	step := span / float64(n)
	if ulp := math.Nextafter(x0+span, math.Inf(1)) - (x0 + span); step < ulp { // never below one ulp: consecutive points stay distinct
		step = ulp
	}
	return c06WinCase{TwoA: twoA, X0: x0, Step: step, N: n, Kind: kind}
}

func TestC06Window(t *testing.T) { runProp(t, "C06", genC06Win, checkC06Win) }

// TestC06DenseSweep: for every shape the library's tests use (and all k/2 up to 10), 250000 equally spaced points on either side
// of the switch-over max(1,a): [sw/2, sw] (series) and [sw, 3sw/2] (continued fraction), in windows of 12500.
func TestC06DenseSweep(t *testing.T) {
	var cases []c06WinCase
	per, win := 250000, 12500
	if thorough() {
		per = 2000000
	}
	for _, k := range []int{1, 2, 3, 4, 5, 6, 7, 8, 9, 10, 11, 12, 13, 14, 15, 16, 17, 18, 19, 20, 32, 64, 128, 255} {
		sw := math.Max(1, float64(k)/2)
		step := sw / 2 / float64(per)
		for _, lo := range []float64{sw / 2, sw} {
			for w := 0; w < per/win; w++ {
				cases = append(cases, c06WinCase{TwoA: k, X0: lo + float64(w*win)*step, Step: step, N: win + 1, Kind: "dense-sweep"})
			}
		}
	}
	enumerate(t, "C06", cases, checkC06Win)
}
