package props

import (
	"bytes"
	"fmt"
	"io"
	"os"
	"runtime"
	"sort"
	"strings"
	"sync"
	"time"

	rn "github.com/Trisia/randomness"
	"github.com/Trisia/randomness/detect"
	"pgregory.net/rapid"

	"verif/harness/gen"
	"verif/harness/ref"
)

// Shared infrastructure for the workflow properties C07-C10, C14.

type workflow struct {
	Name        string
	S           int // samples
	SampleBytes int
	Items       int
	Seq         func(io.Reader) (bool, error)
	Fast        func(io.Reader) (bool, error)
}

var workflows = map[string]workflow{
	"factory": {"factory", 50, 125000, 15, detect.FactoryDetect, detect.FactoryDetectFast},
	"poweron": {"poweron", 20, 125000, 15, detect.PowerOnDetect, detect.PowerOnDetectFast},
	"period":  {"period", 20, 2500, 12, detect.PeriodDetect, detect.PeriodDetectFast},
}

// sampleSpec is a recipe for one sample of a stream.
type sampleSpec struct {
	Kind string  `json:"k,omitempty"` // "" uniform PRNG | "lfsr" degree-63 LFSR | "biased" | "const" | "tile"
	Seed uint64  `json:"s"`
	P    float64 `json:"p,omitempty"`
}

func (sp sampleSpec) bytes(n int) []byte {
	switch sp.Kind {
	case "":
		return sampleBytes(sp.Seed, n)
	case "lfsr": // x^63 + x + 1 (primitive): statistically fine, linear complexity 63
		st := sp.Seed | 1
		out := make([]byte, n)
		for i := range out {
			var v byte
			for j := 0; j < 8; j++ {
				bit := (st ^ (st >> 1)) & 1 // taps 0 and 1 of a right-shifting register of length 63
				st = (st >> 1) | (bit << 62)
				v = v<<1 | byte(st&1)
			}
			out[i] = v
		}
		return out
	case "biased":
		return gen.Pack(gen.Seq{Family: "biased", N: n * 8, Seed: sp.Seed, F: sp.P}.Expand())
	case "sticky": // markov chain with stay probability P: too few runs (runs-test Q saturates at exactly 1.0)
		return gen.Pack(gen.Seq{Family: "markov", N: n * 8, Seed: sp.Seed, F: sp.P}.Expand())
	case "balanced": // exactly as many ones as zeros: the monobit Q-value is exactly 0.5, the lower edge of the interval [0.5, 0.6)
		return gen.Pack(gen.Seq{Family: "balanced", N: n * 8, Seed: sp.Seed}.Expand())
	case "const":
		out := make([]byte, n)
		for i := range out {
			out[i] = byte(sp.Seed)
		}
		return out
	}
	panic("unknown sample kind " + sp.Kind)
}

type streamCase struct {
	Workflow  string       `json:"workflow"`
	Fast      bool         `json:"fast,omitempty"`
	Samples   []sampleSpec `json:"samples"`
	Trailing  int          `json:"trailing,omitempty"`
	TrailKind string       `json:"trail_kind,omitempty"` // "zero" | "random"
	Target    string       `json:"target,omitempty"`
	Plan      []int        `json:"plan,omitempty"`   // chunk plan (C10)
	Delays    []int        `json:"delays,omitempty"` // delay plan (C08)
	Procs     int          `json:"gomaxprocs,omitempty"`
	Source    string       `json:"source,omitempty"` // "" harness reader | "eof-with-data" | "bytes.Reader@offset" | "os.File@offset"
	Hdr       int          `json:"header_bytes,omitempty"`
	PriorFail int          `json:"prior_fail_bytes,omitempty"` // history: an earlier call of the same workflow got only this many bytes
	PriorWF   string       `json:"prior_workflow,omitempty"`   // ... or of this other workflow ("period", "poweron+fast", "single", ...)
}

// priorWorkflows: the detections an earlier call in the same process may have been ("" = the workflow under test itself).
var priorWorkflows = []string{"", "", "period", "poweron", "factory", "period+fast", "poweron+fast", "factory+fast", "single"}

// priorCall is history: an earlier detection in this process, by the named workflow, on a source that delivers data and
// then runs dry. Its own outcome is not judged here (its own property does that); a panic or a hang is reported by the caller's check of
// the call under test only if it propagates.
func priorCall(name string, data []byte) (hung bool) {
	fast := strings.HasSuffix(name, "+fast")
	name = strings.TrimSuffix(name, "+fast")
	fn := func() (bool, error) { return detect.SingleDetect(gen.NewReader(data), len(data)+1) }
	if w, ok := workflows[name]; ok {
		fn = func() (bool, error) { return w.Seq(gen.NewReader(data)) }
		if fast {
			fn = func() (bool, error) { return w.Fast(gen.NewReader(data)) }
		}
	}
	res := callWatched(fn, time.Minute)
	return res.Hung
}

// drawPrior draws the history dimension: with probability 1/3 an earlier failed call (bytes delivered, workflow).
func drawPrior(t *rapid.T, c *streamCase) {
	if rapid.IntRange(0, 2).Draw(t, "history") != 0 {
		return
	}
	c.PriorFail = rapid.SampledFrom([]int{1, 2500, 2501, 7000, 25000, 49999}).Draw(t, "prior_fail")
	c.PriorWF = rapid.SampledFrom(priorWorkflows).Draw(t, "prior_workflow")
}

func (c streamCase) runPrior(stream []byte, out *Outcome) {
	if c.PriorFail <= 0 {
		return
	}
	name := c.PriorWF
	if name == "" {
		name = c.Workflow
	}
	out.Classes = append(out.Classes, "after-a-failed-call", "after-a-failed-call:"+name)
	priorCall(name, stream[:min(c.PriorFail, len(stream))])
}

// openSource builds the source a case asks for over the given stream.
func openSource(c streamCase, stream []byte) (io.Reader, func()) {
	switch c.Source {
	case "bytes.Reader@offset", "os.File@offset":
		hdr := make([]byte, 1+c.Hdr) // hostile header: zeros that must never be judged
		full := append(append([]byte{}, hdr...), stream...)
		if c.Source == "os.File@offset" {
			if f, err := os.CreateTemp(envOr("VERIF_SCRATCH", os.TempDir()), "src-*.bin"); err == nil {
				_, _ = f.Write(full)
				_, _ = f.Seek(int64(len(hdr)), io.SeekStart)
				return f, func() { f.Close(); os.Remove(f.Name()) }
			}
		}
		br := bytes.NewReader(full)
		_, _ = br.Seek(int64(len(hdr)), io.SeekStart)
		return br, func() {}
	}
	r := gen.NewReader(stream)
	r.Plan, r.Delays = c.Plan, c.Delays
	r.EOFWithData = c.Source == "eof-with-data"
	return r, func() {}
}

func (c streamCase) wf() workflow { return workflows[c.Workflow] }

func (c streamCase) stream() []byte {
	w := c.wf()
	out := make([]byte, 0, len(c.Samples)*w.SampleBytes+c.Trailing)
	for _, sp := range c.Samples {
		out = append(out, sp.bytes(w.SampleBytes)...)
	}
	if c.Trailing > 0 {
		if c.TrailKind == "random" {
			out = append(out, sampleBytes(uint64(c.Trailing)*77+1, c.Trailing)...)
		} else {
			out = append(out, make([]byte, c.Trailing)...)
		}
	}
	return out
}

// modelDecision runs the registry runners on every sample (in parallel on the harness side) and
// applies the independent decision model.
func modelDecision(w workflow, stream []byte) ref.Decision {
	res := make([][]ref.SampleResult, w.S)
	for i := range res {
		res[i] = make([]ref.SampleResult, w.Items)
	}
	type job struct{ i, j int }
	ch := make(chan job)
	var wg sync.WaitGroup
	for k := 0; k < runtime.NumCPU(); k++ {
		wg.Add(1)
		go func() {
			defer wg.Done()
			for jb := range ch {
				smp := stream[jb.i*w.SampleBytes : (jb.i+1)*w.SampleBytes]
				r := rn.TestMethodArr[jb.j].Runner(smp)
				res[jb.i][jb.j] = ref.SampleResult{Q: r.Q, Pass: r.Pass}
			}
		}()
	}
	// expensive items first so that the tail is short
	order := []int{12, 14, 11, 9, 7, 3, 13, 5, 1, 4, 6, 10, 8, 0, 2}
	for _, j := range order {
		if j >= w.Items {
			continue
		}
		for i := 0; i < w.S; i++ {
			ch <- job{i, j}
		}
	}
	close(ch)
	wg.Wait()
	return ref.Decide(res)
}

// namedItem returns the registry index whose name prefixes the error text, or -1.
func namedItem(err error) int {
	if err == nil {
		return -1
	}
	best, bl := -1, 0
	for i, it := range rn.TestMethodArr {
		if strings.HasPrefix(err.Error(), it.Name+" ") && len(it.Name) > bl {
			best, bl = i, len(it.Name)
		}
	}
	return best
}

// compareWithModel checks (verdict, err) against the decision model.
func compareWithModel(what string, verdict bool, err error, d ref.Decision) error {
	if verdict != d.Verdict {
		return violation("verdict", "%s returned (%v, %v); decision rule gives %v (violating items %v, pass counts %v, threshold %d, uniformity %v)",
			what, verdict, err, d.Verdict, d.Violating, d.PassCount, d.Threshold, fmtP(d.UniformP))
	}
	if verdict && err != nil {
		return violation("error-on-true", "%s returned true with a non-nil error %v", what, err)
	}
	if !verdict {
		if err == nil {
			return violation("nil-error-on-false", "%s returned false with a nil error", what)
		}
		it := namedItem(err)
		ok := false
		for _, v := range d.Violating {
			if v == it {
				ok = true
			}
		}
		if !ok {
			return violation("wrong-item", "%s returned false naming %q (item index %d); items violating a criterion: %v (pass counts %v, threshold %d, uniformity %v)",
				what, err.Error(), it, d.Violating, d.PassCount, d.Threshold, fmtP(d.UniformP))
		}
	}
	return nil
}

func fmtP(ps []float64) string {
	var sb strings.Builder
	for i, p := range ps {
		if i > 0 {
			sb.WriteByte(' ')
		}
		fmt.Fprintf(&sb, "%.2g", p)
	}
	return sb.String()
}

// atBoundary: some item's pass count in {t-1, t} or some item's uniformity P in [1e-5, 1e-3].
func atBoundary(d ref.Decision) (bool, []string) {
	var cls []string
	pc, un := false, false
	for j := range d.PassCount {
		if d.PassCount[j] == d.Threshold || d.PassCount[j] == d.Threshold-1 {
			pc = true
		}
		if d.UniformP[j] >= 1e-5 && d.UniformP[j] <= 1e-3 {
			un = true
		}
	}
	if pc {
		cls = append(cls, "boundary/pass-count in {t-1,t}")
	}
	if un {
		cls = append(cls, "boundary/uniformity P in [1e-5,1e-3]")
	}
	return pc || un, cls
}

func undecidable(d ref.Decision) bool {
	for _, p := range d.UniformP {
		if p > 1e-4-1e-9 && p < 1e-4+1e-9 {
			return true
		}
	}
	return false
}

// ---- histogram targets for the uniformity boundary ----

var (
	histMu    sync.Mutex
	histCache = map[int][][]int{}
)

// boundaryHistograms: partitions of s into at most 10 parts whose uniformity P is within
// [1e-6, 1e-2] (i.e. around the 1e-4 decision boundary), as descending count lists.
func boundaryHistograms(s int) [][]int {
	histMu.Lock()
	defer histMu.Unlock()
	if h, ok := histCache[s]; ok {
		return h
	}
	// V range by bisection on the reference
	vAt := func(p float64) float64 {
		lo, hi := 0.0, 400.0
		for i := 0; i < 60; i++ {
			m := (lo + hi) / 2
			if ref.Igamc(4.5, m/2) > p {
				lo = m
			} else {
				hi = m
			}
		}
		return lo
	}
	vlo, vhi := vAt(1e-2), vAt(1e-6)
	var out [][]int
	cur := make([]int, 0, 10)
	var rec func(rem, maxPart int)
	rec = func(rem, maxPart int) {
		if rem == 0 {
			h := make([]int, 10)
			copy(h, cur)
			v := 0.0
			for _, c := range h {
				d := float64(c) - float64(s)/10
				v += d * d / (float64(s) / 10)
			}
			if v >= vlo && v <= vhi {
				out = append(out, h)
			}
			return
		}
		if len(cur) == 10 {
			return
		}
		for p := min(rem, maxPart); p >= 1; p-- {
			if p*(10-len(cur)) < rem {
				break
			}
			cur = append(cur, p)
			rec(rem-p, p)
			cur = cur[:len(cur)-1]
		}
	}
	rec(s, s)
	sort.Slice(out, func(i, j int) bool { return fmt.Sprint(out[i]) < fmt.Sprint(out[j]) })
	histCache[s] = out
	return out
}

// ---- stream composer ----

var (
	poolMu    sync.Mutex
	poolCache = map[int]*pool{}
)

func getPool(nbytes int) *pool {
	poolMu.Lock()
	defer poolMu.Unlock()
	if p, ok := poolCache[nbytes]; ok {
		return p
	}
	p, err := loadPool(nbytes)
	if err != nil {
		panic(fmt.Sprintf("cannot load sample pool: %v", err))
	}
	poolCache[nbytes] = p
	return p
}

func pick(t *rapid.T, p *pool, idx []int, label string) sampleSpec {
	if len(idx) == 0 {
		idx = p.allPass
	}
	return sampleSpec{Seed: p.Entries[idx[rapid.IntRange(0, len(idx)-1).Draw(t, label)]].Seed}
}

func shuffleSpecs(t *rapid.T, s []sampleSpec) []sampleSpec {
	perm := rapid.Permutation(s).Draw(t, "order")
	return perm
}

// drawStream composes a stream for workflow w aimed at a decision boundary.
func drawStream(t *rapid.T, wname string, targets []string) streamCase {
	w := workflows[wname]
	p := getPool(w.SampleBytes)
	c := streamCase{Workflow: wname}
	c.Target = rapid.SampledFrom(targets).Draw(t, "target")
	allowed := w.S - int(ref.Threshold(int64(w.S))) // failing samples tolerated per item
	all := make([]int, len(p.Entries))
	for i := range all {
		all[i] = i
	}
	var specs []sampleSpec
	fill := func(n int) {
		for len(specs) < n {
			specs = append(specs, pick(t, p, p.allPass, "pass"))
		}
	}
	switch c.Target {
	case "random":
		for i := 0; i < w.S; i++ {
			specs = append(specs, pick(t, p, all, "any"))
		}
	case "allpass":
		fill(w.S)
	case "passcount":
		j := rapid.IntRange(0, w.Items-1).Draw(t, "item")
		f := max(0, allowed+rapid.IntRange(-1, 2).Draw(t, "df"))
		for i := 0; i < f; i++ {
			specs = append(specs, pick(t, p, p.failing[j], "fail"))
		}
		fill(w.S)
	case "two-items":
		j1 := rapid.IntRange(0, w.Items-1).Draw(t, "item1")
		j2 := rapid.IntRange(0, w.Items-1).Draw(t, "item2")
		for i := 0; i < allowed+rapid.IntRange(0, 1).Draw(t, "f1"); i++ {
			specs = append(specs, pick(t, p, p.failing[j1], "fail1"))
		}
		for i := 0; i < allowed+rapid.IntRange(0, 1).Draw(t, "f2"); i++ {
			specs = append(specs, pick(t, p, p.failing[j2], "fail2"))
		}
		fill(w.S)
	case "uniformity":
		j := rapid.IntRange(0, w.Items-1).Draw(t, "item")
		hs := boundaryHistograms(w.S)
		h := hs[rapid.IntRange(0, len(hs)-1).Draw(t, "hist")]
		bins := rapid.Permutation([]int{0, 1, 2, 3, 4, 5, 6, 7, 8, 9}).Draw(t, "bins")
		// optionally let one sample per bin be one that FAILS item j while its Q lies in that bin (two-sided tests:
		// P small with Q near 0 or near 1), so that pass counting and the Q histogram interact
		withFailing := rapid.Bool().Draw(t, "failing_in_bin")
		failBudget := allowed
		// a sample whose Q-value for item j saturates at exactly 1.0 (6-sigma excess of zeros for the monobit test, far too few
		// runs for the runs test) belongs to the top interval [0.9, 1]: place one where the histogram wants a bin-9 sample
		extreme := (j == 0 || j == 4) && rapid.Bool().Draw(t, "saturated_q")
		// Q-values exactly on an interval edge: an exactly balanced sample has monobit Q = 0.5, which belongs to [0.5, 0.6)
		onEdge := j == 0 && rapid.Bool().Draw(t, "q_on_edge")
		for k, cnt := range h {
			for i := 0; i < cnt; i++ {
				if onEdge && bins[k] == 5 {
					specs = append(specs, sampleSpec{Kind: "balanced", Seed: rapid.Uint64().Draw(t, "bseed")})
					continue
				}
				if extreme && bins[k] == 9 && i == 0 && failBudget > 0 {
					sp := sampleSpec{Kind: "biased", Seed: rapid.Uint64().Draw(t, "xseed"), P: 0.46}
					if j == 4 {
						sp = sampleSpec{Kind: "sticky", Seed: rapid.Uint64().Draw(t, "xseed"), P: 0.56}
					}
					specs = append(specs, sp)
					failBudget--
					extreme = false
					continue
				}
				if withFailing && i == 0 && failBudget > 0 && len(p.failByBin[j][bins[k]]) > 0 {
					specs = append(specs, pick(t, p, p.failByBin[j][bins[k]], "failbin"))
					failBudget--
					continue
				}
				specs = append(specs, pick(t, p, p.byBin[j][bins[k]], "bin"))
			}
		}
	case "half": // a two-sided item whose Q-values all lie in one half of [0,1] (evenly spread over k bins): the Q histogram fails the
		// uniformity criterion while the histogram of the corresponding P-values = 2 min(Q, 1-Q) looks fine (P/Q mix-ups)
		twoSided := []int{0, 4, 7, 8}
		if w.Items == 15 {
			twoSided = append(twoSided, 13, 14)
		}
		j := rapid.SampledFrom(twoSided).Draw(t, "item")
		k := 3
		if w.S >= 50 {
			k = rapid.IntRange(4, 5).Draw(t, "halfbins")
		}
		upper := rapid.Bool().Draw(t, "upper_half")
		for i := 0; i < w.S; i++ {
			b := i % k
			if upper {
				b = 9 - b
			}
			specs = append(specs, pick(t, p, p.byBin[j][b], "half"))
		}
	case "mixed": // item i fails only the uniformity criterion, a later item j > i fails only the pass count: which one is named?
		i := rapid.IntRange(0, w.Items-2).Draw(t, "item_uniformity")
		j := rapid.IntRange(i+1, w.Items-1).Draw(t, "item_passcount")
		for k := 0; k < allowed+1; k++ {
			specs = append(specs, pick(t, p, p.failing[j], "failj"))
		}
		// the remaining samples all come from two Q-bins of item i: a hopelessly lopsided histogram
		b1 := rapid.IntRange(0, 9).Draw(t, "bin1")
		b2 := rapid.IntRange(0, 9).Draw(t, "bin2")
		for len(specs) < w.S {
			b := b1
			if len(specs)%2 == 0 {
				b = b2
			}
			specs = append(specs, pick(t, p, p.byBin[i][b], "lop"))
		}
	case "replayed": // a source that replays one (perfectly good) sample r times, e.g. a stuck DMA buffer: every item has r Q-values
		// in ONE interval - for large r far beyond any borderline histogram (squares of counts above 255, chi-square up to 9s)
		sp := pick(t, p, p.allPass, "replayed")
		r := rapid.IntRange(2, w.S).Draw(t, "replays")
		if rapid.Bool().Draw(t, "mostly") {
			r = rapid.IntRange(w.S*3/4, w.S).Draw(t, "replays_many")
		}
		for i := 0; i < r; i++ {
			specs = append(specs, sp)
		}
		fill(w.S)
	case "one-bad": // all-pass samples plus exactly `allowed` stuck-at samples: passes, unless sample contents get mixed up
		for i := 0; i < allowed; i++ {
			specs = append(specs, sampleSpec{Kind: "const", Seed: rapid.SampledFrom([]uint64{0x00, 0xff, 0x55}).Draw(t, "stuck")})
		}
		fill(w.S)
	case "lfsr": // only items 13-15 (linear complexity) would fail
		for i := 0; i < w.S; i++ {
			specs = append(specs, sampleSpec{Kind: "lfsr", Seed: rapid.Uint64Range(1, 1<<62).Draw(t, "state")})
		}
	}
	c.Samples = shuffleSpecs(t, specs[:w.S])
	switch rapid.IntRange(0, 7).Draw(t, "source") {
	case 0:
		c.Source = "eof-with-data" // exactly s samples, the last Read returns the final bytes together with io.EOF
		return c
	case 1:
		c.Source, c.Hdr = rapid.SampledFrom([]string{"bytes.Reader@offset", "os.File@offset"}).Draw(t, "std"), rapid.IntRange(0, 5000).Draw(t, "hdr")
	}
	if rapid.IntRange(0, 2).Draw(t, "trail") == 0 {
		c.Trailing = rapid.SampledFrom([]int{1, w.SampleBytes - 1, w.SampleBytes, 3 * w.SampleBytes}).Draw(t, "trailing")
		c.TrailKind = rapid.SampledFrom([]string{"zero", "random"}).Draw(t, "trailkind")
	}
	return c
}
