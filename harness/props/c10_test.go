package props

import (
	"bytes"
	"io"
	"os"
	"strings"
	"testing"

	"github.com/Trisia/randomness/detect"
	"pgregory.net/rapid"

	"verif/harness/gen"
)

// C10: verdicts depend on the bytes delivered, not on how Read chunks them.

type c10Case struct {
	Stream   streamCase `json:"stream"`
	Single   bool       `json:"single,omitempty"`
	NumByte  int        `json:"num_byte,omitempty"`
	Seed     uint64     `json:"seed,omitempty"`
	PlanKind string     `json:"plan_kind"`
	Source   string     `json:"source,omitempty"` // "" = the harness's chunking reader; "bytes.Reader@offset" / "os.File@offset" = standard readers positioned behind a header
}

func drawPlan(t *rapid.T, sampleBytes int) (string, []int) {
	kind := rapid.SampledFrom([]string{"all-1", "prime", "random", "straddle", "one-short", "pow2-remainder"}).Draw(t, "plankind")
	if v := os.Getenv("VERIF_PLAN"); v != "" {
		kind = v
	}
	switch kind {
	case "all-1":
		return kind, []int{1}
	case "prime":
		return kind, []int{rapid.SampledFrom([]int{2, 3, 7, 31, 127, 1009, 4099, 8191}).Draw(t, "prime")}
	case "random":
		n := rapid.IntRange(1, 12).Draw(t, "nplan")
		p := make([]int, n)
		for i := range p {
			p[i] = rapid.IntRange(1, sampleBytes+7).Draw(t, "chunk")
		}
		return kind, p
	case "pow2-remainder": // per sample: first a read that leaves j*2^p + r bytes missing (r < 600: "a few buffers plus a small tail"), then the rest
		var plan []int
		for k := 0; k < 24; k++ { // a different split for (almost) every sample of the stream
			p := rapid.SampledFrom([]int{9, 12, 13, 15, 16, 16}).Draw(t, "p") // 512 B sectors, 4/8 KiB pages, 32/64 KiB copy and pipe buffers
			j := rapid.IntRange(1, max(1, sampleBytes>>uint(p))).Draw(t, "j")
			first := sampleBytes - j<<uint(p) - rapid.IntRange(0, 600).Draw(t, "r")
			if first < 1 {
				first = 1 + rapid.IntRange(0, 600).Draw(t, "r2")
			}
			plan = append(plan, first, 1<<30)
		}
		return kind, plan
	case "straddle": // chunks of sampleBytes-1 / sampleBytes+1: every read boundary drifts across the sample boundary
		return kind, []int{sampleBytes + rapid.SampledFrom([]int{-1, 1, -7, 13}).Draw(t, "drift")}
	default: // full reads except one short read per cycle
		n := rapid.IntRange(2, 9).Draw(t, "cycle")
		p := make([]int, n)
		for i := range p {
			p[i] = 1 << 30
		}
		p[rapid.IntRange(0, n-1).Draw(t, "where")] = rapid.IntRange(1, sampleBytes-1).Draw(t, "short")
		return kind, p
	}
}

func checkC10(c c10Case) (Outcome, error) {
	if c.Single {
		data := sampleBytes(c.Seed, c.NumByte)
		out := Outcome{Classes: []string{"workflow:single", "plan:" + c.PlanKind}}
		vRef, eRef := detect.SingleDetect(gen.NewReader(data), c.NumByte)
		r := gen.NewReader(append(append([]byte{}, data...), make([]byte, 64)...))
		r.Plan = c.Stream.Plan
		v, e := detect.SingleDetect(r, c.NumByte)
		out.NonTrivial = vRef
		if v != vRef || (e == nil) != (eRef == nil) {
			return out, violation("single", "SingleDetect(%d bytes): (%v,%v) with full reads, (%v,%v) with chunk plan %v", c.NumByte, vRef, eRef, v, e, c.Stream.Plan)
		}
		if got := r.Consumed(); got != c.NumByte {
			return out, violation("single-consumed", "SingleDetect(%d) consumed %d bytes under chunk plan %v", c.NumByte, got, c.Stream.Plan)
		}
		return out, nil
	}
	sc := c.Stream
	w := sc.wf()
	stream := sc.stream()
	fn, name := w.Seq, sc.Workflow
	if sc.Fast {
		fn, name = w.Fast, sc.Workflow+"-fast"
	}
	out := Outcome{Classes: []string{"workflow:" + name, "plan:" + c.PlanKind, "target:" + sc.Target}}
	sc.runPrior(stream, &out)
	vRef, eRef := w.Seq(gen.NewReader(stream))
	var v bool
	var e error
	switch c.Source {
	case "bytes.Reader@offset", "os.File@offset":
		// a plain library reader that also implements io.ReaderAt / io.Seeker, positioned behind a header of hostile bytes
		// (zeros); the workflow must judge what Read delivers from the current position on
		out.Classes = append(out.Classes, "source:"+c.Source)
		hdr := make([]byte, 1+int(c.Seed%4096))
		full := append(append([]byte{}, hdr...), stream...)
		if c.Source == "os.File@offset" {
			f, err := os.CreateTemp(envOr("VERIF_SCRATCH", os.TempDir()), "c10-*.bin")
			if err != nil {
				return Outcome{Skip: "cannot create scratch file"}, nil
			}
			defer os.Remove(f.Name())
			defer f.Close()
			_, _ = f.Write(full)
			_, _ = f.Seek(int64(len(hdr)), io.SeekStart)
			v, e = fn(f)
		} else {
			br := bytes.NewReader(full)
			_, _ = br.Seek(int64(len(hdr)), io.SeekStart)
			v, e = fn(br)
		}
	default:
		r := gen.NewReader(stream)
		r.Plan = sc.Plan
		r.EOFWithData = sc.Source == "eof-with-data"
		if r.EOFWithData {
			out.Classes = append(out.Classes, "source:eof-with-data")
		}
		v, e = fn(r)
	}
	out.NonTrivial = vRef || namedItem(eRef) != 0
	if vRef {
		out.Classes = append(out.Classes, "full-read:true")
	} else {
		out.Classes = append(out.Classes, "full-read:false")
	}
	if v != vRef {
		return out, violation("verdict", "%s: (%v,%v) with full reads but (%v,%v) when Read returns chunks %v", name, vRef, eRef, v, e, trunc(sc.Plan))
	}
	if !v && (e == nil || namedItem(e) != namedItem(eRef)) {
		return out, violation("item", "%s: full reads name %q, chunked reads (%v) name %q", name, eRef, trunc(sc.Plan), e)
	}
	if v && e != nil {
		return out, violation("error-on-true", "%s: true with error %v", name, e)
	}
	return out, nil
}

func trunc(p []int) []int {
	if len(p) > 12 {
		return p[:12]
	}
	return p
}

func genC10(t *rapid.T) c10Case {
	if mode == "single" || (mode == "" && rapid.IntRange(0, 5).Draw(t, "single") == 0) {
		n := rapid.SampledFrom([]int{16, 17, 40, 100, 1279, 1280, 4096}).Draw(t, "numbyte")
		switch rapid.IntRange(0, 3).Draw(t, "lenclass") {
		case 0:
			n = uniformInt(t, 16, 5000, "numbyte")
		case 1: // captures larger than common buffer sizes
			n = rapid.SampledFrom([]int{65535, 65536, 65537, 70000, 131072, 200000}).Draw(t, "numbyte")
		}
		kind, plan := drawPlan(t, n)
		return c10Case{Single: true, NumByte: n, Seed: rapid.Uint64().Draw(t, "seed"), PlanKind: kind, Stream: streamCase{Plan: plan}}
	}
	wn := c07Workflow()
	targets := []string{"allpass", "allpass", "one-bad", "one-bad", "random", "passcount", "uniformity"}
	if v := os.Getenv("VERIF_TARGETS"); v != "" {
		targets = strings.Split(v, ",")
	}
	sc := drawStream(t, wn, targets)
	sc.Fast = rapid.Bool().Draw(t, "fast")
	if mode == "factory" || mode == "poweron" {
		sc.Fast = envInt("VERIF_FAST", 1) == 1
	}
	kind, plan := drawPlan(t, sc.wf().SampleBytes)
	sc.Plan = plan
	drawPrior(t, &sc)
	c := c10Case{Stream: sc, PlanKind: kind}
	if os.Getenv("VERIF_TARGETS") == "" && rapid.IntRange(0, 3).Draw(t, "stdsource") == 0 {
		c.Source = rapid.SampledFrom([]string{"bytes.Reader@offset", "os.File@offset"}).Draw(t, "source")
		c.Seed = rapid.Uint64().Draw(t, "hdr")
		c.PlanKind = "full"
	}
	return c
}

func TestC10(t *testing.T) { runPropJ(t, "C10", genC10, checkC10, true) }
