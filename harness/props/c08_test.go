package props

import (
	"fmt"
	"io"
	"os"
	"runtime"
	"strings"
	"testing"
	"time"

	"pgregory.net/rapid"

	"verif/harness/gen"
)

// C08: every parallel (Fast) workflow gives the sequential verdict (and names the same
// item) under perturbed schedules; no data race (the driver also runs this in a -race binary).

func drawDelays(t *rapid.T) []int {
	n := rapid.IntRange(0, 24).Draw(t, "ndelays")
	out := make([]int, n)
	for i := range out {
		switch rapid.IntRange(0, 3).Draw(t, "dk") {
		case 0:
			out[i] = 0
		case 1:
			out[i] = rapid.IntRange(1, 9).Draw(t, "gosched")
		default:
			out[i] = rapid.IntRange(50, 2000).Draw(t, "sleep_us")
		}
	}
	return out
}

func checkC08(c streamCase) (Outcome, error) {
	w := c.wf()
	stream := c.stream()
	out := Outcome{Classes: []string{"workflow:" + c.Workflow, "target:" + c.Target, "numcpu:" + itoa(runtime.NumCPU()), "gomaxprocs:" + itoa(c.Procs)}}
	c.runPrior(stream, &out)
	// sequential reference first, under recover: a stream that crashes the sequential run belongs to C04/C14
	var vs bool
	var es error
	crashed := func() (p bool) {
		defer func() {
			if recover() != nil {
				p = true
			}
		}()
		vs, es = w.Seq(gen.NewReader(stream))
		return false
	}()
	if crashed {
		return Outcome{Skip: "sequential run panics (belongs to C04/C14)"}, nil
	}
	if c.Procs > 0 {
		old := runtime.GOMAXPROCS(c.Procs)
		defer runtime.GOMAXPROCS(old)
	}
	if len(c.Plan) > 0 {
		out.Classes = append(out.Classes, "short-reads")
		// keep the number of sleeping reads bounded: with 1-byte reads a sleep per read would take minutes
		if len(c.Plan) == 1 && c.Plan[0] < 64 {
			for i := range c.Delays {
				if c.Delays[i] >= 10 {
					c.Delays[i] = 1 + c.Delays[i]%9
				}
			}
		}
	}
	if c.Source != "" {
		out.Classes = append(out.Classes, "source:"+c.Source)
	}
	r, done := openSource(c, stream)
	defer done()
	vf, ef := w.Fast(r)
	is, ifa := namedItem(es), namedItem(ef)
	out.NonTrivial = vs || (es != nil && !errSaysZero(es))
	if vs {
		out.Classes = append(out.Classes, "sequential:true")
	} else {
		out.Classes = append(out.Classes, "sequential:false")
	}
	if c.Target == "lfsr" {
		out.Classes = append(out.Classes, "items 13-15 would fail")
	}
	if vf != vs {
		return out, violation("verdict", "%s: sequential (%v, %v) but parallel (%v, %v) on the same %d bytes [NumCPU=%d GOMAXPROCS=%d]",
			c.Workflow, vs, es, vf, ef, len(stream), runtime.NumCPU(), c.Procs)
	}
	if vs && (ef != nil || es != nil) {
		return out, violation("error-on-true", "%s: true verdict with error: sequential %v, parallel %v", c.Workflow, es, ef)
	}
	if !vs {
		if ef == nil {
			return out, violation("nil-error-on-false", "%s: parallel variant returned false with nil error (sequential: %v)", c.Workflow, es)
		}
		if is != ifa {
			return out, violation("item", "%s: sequential names %q, parallel names %q", c.Workflow, es, ef)
		}
	}
	return out, nil
}

// errSaysZero: the failing item passed on no sample at all ("<name> 0/20"): the least informative way to fail.
func errSaysZero(e error) bool {
	s := e.Error()
	for i := 0; i+3 <= len(s); i++ {
		if s[i:i+3] == " 0/" {
			return true
		}
	}
	return false
}

func itoa(n int) string {
	if n == 0 {
		return "0"
	}
	neg := n < 0
	if neg {
		n = -n
	}
	var b []byte
	for n > 0 {
		b = append([]byte{byte('0' + n%10)}, b...)
		n /= 10
	}
	if neg {
		b = append([]byte{'-'}, b...)
	}
	return string(b)
}

func genC08(t *rapid.T) streamCase {
	wn := c07Workflow()
	targets := []string{"passcount", "uniformity", "two-items", "random", "random", "allpass", "allpass", "one-bad", "one-bad", "mixed", "mixed", "half"}
	if v := os.Getenv("VERIF_TARGETS"); v != "" {
		targets = strings.Split(v, ",")
	}
	if wn == "period" {
		targets = append(targets, "lfsr", "lfsr")
	}
	c := drawStream(t, wn, targets)
	c.Fast = true
	c.Delays = drawDelays(t)
	c.Procs = rapid.SampledFrom([]int{1, 2, 4, 16}).Draw(t, "gomaxprocs")
	drawPrior(t, &c)
	if rapid.IntRange(0, 2).Draw(t, "shortreads") == 0 {
		// a concurrency-safe source may also return short reads; combined with delays this lets the
		// workers' reads interleave inside a sample if the library does not read a sample atomically
		_, c.Plan = drawPlan(t, c.wf().SampleBytes)
	}
	return c
}

func TestC08(t *testing.T) { runPropJ(t, "C08", genC08, checkC08, true) }

// c08Pipe: the same stream through an OS pipe (a source that supports read deadlines, as pipes, FIFOs, character devices and
// sockets do), with the producer pausing before the last sample; sequential and parallel twin must agree.
type c08Pipe struct {
	Workflow string `json:"workflow"`
	Seed     uint64 `json:"seed"`
	PauseMs  int    `json:"pause_ms"`
}

func checkC08Pipe(c c08Pipe) (Outcome, error) {
	w := workflows[c.Workflow]
	out := Outcome{NonTrivial: true, Classes: []string{"os-pipe", fmt.Sprintf("pause:%dms", c.PauseMs)}}
	stream := sampleBytes(c.Seed, w.S*w.SampleBytes)
	run := func(fn func(io.Reader) (bool, error)) (bool, error, bool) {
		pr, pw, err := os.Pipe()
		if err != nil {
			return false, err, true
		}
		defer pr.Close()
		go func() {
			defer pw.Close()
			cut := (w.S - 1) * w.SampleBytes
			_, _ = pw.Write(stream[:cut])
			time.Sleep(time.Duration(c.PauseMs) * time.Millisecond)
			_, _ = pw.Write(stream[cut:])
		}()
		res := callWatched(func() (bool, error) { return fn(pr) }, 10*time.Minute)
		return res.Verdict, res.Err, res.Hung || res.Slow || res.Panic != nil
	}
	vs, es, bad := run(w.Seq)
	if bad {
		return Outcome{Skip: "INCONCLUSIVE sequential run on the pipe did not complete"}, nil
	}
	vf, ef, bad := run(w.Fast)
	if bad {
		return out, violation("pipe-hang", "%s: the parallel variant did not return on an OS pipe whose producer pauses %d ms", c.Workflow, c.PauseMs)
	}
	if vs != vf || namedItem(es) != namedItem(ef) {
		return out, violation("pipe", "%s on an OS pipe (producer pauses %d ms before the last sample): sequential (%v, %v), parallel (%v, %v)", c.Workflow, c.PauseMs, vs, es, vf, ef)
	}
	return out, nil
}

// TestC08SlowPipe: deterministic; pauses of 0 s, 0.2 s and 12 s.
func TestC08SlowPipe(t *testing.T) {
	enumerate(t, "C08", []c08Pipe{{"period", 11, 0}, {"period", 12, 200}, {"period", 13, 12000}}, checkC08Pipe)
}
