package props

import (
	"bytes"
	"encoding/json"
	"fmt"
	"math"
	"os"
	"os/exec"
	"path/filepath"
	"regexp"
	"strconv"
	"strings"
	"syscall"
	"testing"
	"time"

	rn "github.com/Trisia/randomness"
	"pgregory.net/rapid"

	"verif/harness/gen"
)

// C13: batch detector report: header + exactly one complete, correctly labelled row per sample file.

type c13File struct {
	Path string  `json:"path"` // relative, with sub-directories
	Seq  gen.Seq `json:"seq"`  // content recipe (N = 8 * file size)
}

type c13Case struct {
	Scale      string    `json:"scale"` // 2E4 | 1E6 | 1E8 (worker driven through the shim on short files) | 1E8hdr (scale switch of main)
	Files      []c13File `json:"files"`
	Extras     []string  `json:"extras,omitempty"`             // non-sample files (other suffixes)
	ExtraSizes []int     `json:"extra_sizes,omitempty"`        // their sizes (smaller, equal to and larger than a sample; other supported sample sizes)
	DirBin     string    `json:"dir_bin,omitempty"`            // a directory whose name ends in .bin / .dat
	InputStyle string    `json:"input_style,omitempty"`        // "" absolute | "rel" in | "dotrel" ./in | "parent" ../<dir>/in | "hidden" a directory whose name starts with a dot | "slash" trailing slash
	ReportIn   string    `json:"report_in,omitempty"`          // "" = outside the input tree; otherwise a path relative to the input directory (the report is written among the samples)
	Stale      int       `json:"stale_report_bytes,omitempty"` // the -o path already holds an older (longer) report of this many bytes
	Workers    int       `json:"workers"`
	Race       bool      `json:"race,omitempty"` // run the binary / shim built with the race detector
	Procs      int       `json:"gomaxprocs,omitempty"`
	FdLimit    int       `json:"fd_limit,omitempty"` // run the tool under this descriptor limit (1024 = the usual default soft limit)
}

var colRe = regexp.MustCompile(`^\[\s*(\d+)\] (P1|P2|Q1|Q2|P|Q) (\S+)(?: (.*))?$`)

// expectCell: header column text -> the library's value for that test / parameter / component.
func expectCell(col string, bits []bool) (float64, error) {
	m := colRe.FindStringSubmatch(col)
	if m == nil {
		return 0, fmt.Errorf("cannot interpret header column %q", col)
	}
	comp, name, param := m[2], m[3], m[4]
	pick := func(p, q float64) float64 {
		if comp[0] == 'P' {
			return p
		}
		return q
	}
	kv := func(k string) (int, error) {
		for _, f := range strings.Fields(param) {
			if strings.HasPrefix(f, k+"=") {
				return strconv.Atoi(f[len(k)+1:])
			}
		}
		return 0, fmt.Errorf("header column %q has no %s= parameter", col, k)
	}
	switch name {
	case "单比特频数检测":
		return pick(rn.MonoBitFrequencyTest(bits)), nil
	case "块内频数检测":
		v, err := kv("m")
		if err != nil {
			return 0, err
		}
		return pick(rn.FrequencyWithinBlockProto(bits, v)), nil
	case "扑克检测":
		v, err := kv("m")
		if err != nil {
			return 0, err
		}
		return pick(rn.PokerProto(bits, v)), nil
	case "重叠子序列检测":
		v, err := kv("m")
		if err != nil {
			return 0, err
		}
		p1, p2, q1, q2 := rn.OverlappingTemplateMatchingProto(bits, v)
		r, ok := map[string]float64{"P1": p1, "P2": p2, "Q1": q1, "Q2": q2}[comp]
		if !ok {
			return 0, fmt.Errorf("header column %q: component %s", col, comp)
		}
		return r, nil
	case "游程总数检测":
		return pick(rn.RunsTest(bits)), nil
	case "游程分布检测":
		return pick(rn.RunsDistributionTest(bits)), nil
	case "块内最大“1”游程检测":
		return pick(rn.LongestRunOfOnesInABlockProto(bits, true)), nil
	case "块内最大“0”游程检测":
		return pick(rn.LongestRunOfOnesInABlockProto(bits, false)), nil
	case "二元推导检测":
		v, err := kv("k")
		if err != nil {
			return 0, err
		}
		return pick(rn.BinaryDerivativeProto(bits, v)), nil
	case "自相关检测":
		v, err := kv("d")
		if err != nil {
			return 0, err
		}
		return pick(rn.AutocorrelationProto(bits, v)), nil
	case "矩阵秩检测":
		return pick(rn.MatrixRankProto(bits, 32, 32)), nil
	case "累加和检测":
		switch param {
		case "前向":
			return pick(rn.CumulativeTest(bits, true)), nil
		case "后向":
			return pick(rn.CumulativeTest(bits, false)), nil
		}
		return 0, fmt.Errorf("header column %q: direction %q", col, param)
	case "近似熵检测":
		v, err := kv("m")
		if err != nil {
			return 0, err
		}
		return pick(rn.ApproximateEntropyProto(bits, v)), nil
	case "线性复杂度检测", "线型复杂度检测":
		v, err := kv("m")
		if err != nil {
			return 0, err
		}
		return pick(rn.LinearComplexityProto(bits, v)), nil
	case "Maurer通用统计检测":
		return pick(rn.MaurerUniversalTest(bits)), nil
	case "离散傅里叶检测":
		return pick(rn.DiscreteFourierTransformTest(bits)), nil
	}
	return 0, fmt.Errorf("header column %q names an unknown test %q", col, name)
}

type errUninterpretable struct{ error }

// expectedRow computes the expected cell strings for one file under a header.
func expectedRow(cols []string, data []byte) ([]float64, error) {
	bits := gen.Unpack(data)
	out := make([]float64, len(cols))
	for i, c := range cols {
		v, err := expectCell(c, bits)
		if err != nil {
			return nil, errUninterpretable{err}
		}
		out[i] = v
	}
	return out, nil
}

func cellOK(cell string, want float64) bool {
	cell = strings.TrimSpace(cell)
	if cell == fmt.Sprintf("%0.6f", want) {
		return true
	}
	got, err := strconv.ParseFloat(cell, 64)
	if err != nil || math.IsNaN(got) {
		return false
	}
	return math.Abs(got-want) <= 1.0000001e-6+5e-7
}

func (c c13Case) sampleSize() int {
	switch c.Scale {
	case "2E4":
		return 2500
	case "1E6":
		return 125000
	}
	return 12500000
}

var scratchSeq int

func newScratch(prefix string) string {
	base := envOr("VERIF_SCRATCH", os.TempDir())
	scratchSeq++
	d := filepath.Join(base, fmt.Sprintf("%s-%d-%d", prefix, os.Getpid(), scratchSeq))
	_ = os.RemoveAll(d)
	_ = os.MkdirAll(d, 0o755)
	return d
}

func shimCall(env ...string) ([]byte, error) { return shimCallBin(os.Getenv("VERIF_BIN_SHIM"), env...) }

func shimCallBin(bin string, env ...string) ([]byte, error) {
	if bin == "" {
		return nil, fmt.Errorf("VERIF_BIN_SHIM not set")
	}
	cmd := exec.Command(bin)
	cmd.Env = append(os.Environ(), env...)
	var out, errb bytes.Buffer
	cmd.Stdout, cmd.Stderr = &out, &errb
	if err := cmd.Run(); err != nil {
		return out.Bytes(), fmt.Errorf("%v: %s", err, clip(errb.String(), 1500))
	}
	return out.Bytes(), nil
}

var headerCache map[string]string

func headers() (map[string]string, error) {
	if headerCache != nil {
		return headerCache, nil
	}
	b, err := shimCall("VERIF_SHIM=headers")
	if err != nil {
		// the shim does not build against this tree (internals renamed): fall back to the committed copy of the three header
		// lines, taken from the unchanged tree through the shim (golden/rddetector_headers.json)
		if b, err = os.ReadFile(filepath.Join(envOr("VERIF_ROOT", "/verif"), "golden", "rddetector_headers.json")); err != nil {
			return nil, err
		}
	}
	h := map[string]string{}
	if err := json.Unmarshal(b, &h); err != nil {
		return nil, err
	}
	headerCache = h
	return h, nil
}

type procResult struct {
	exit     int
	stuck    bool // did not finish within the budget
	deadlock bool // SIGQUIT dump shows no runnable goroutine
	stderr   string
}

// runTool runs a built tool with a wall-clock budget; a stuck child gets SIGQUIT so that Go prints all goroutines.
func runTool(dir string, budget time.Duration, gomaxprocs int, cpus string, bin string, args ...string) procResult {
	argv := append([]string{bin}, args...)
	if cpus != "" {
		argv = append([]string{"taskset", "-c", cpus}, argv...)
	}
	cmd := exec.Command(argv[0], argv[1:]...)
	cmd.Dir = dir
	cmd.Env = os.Environ()
	if gomaxprocs > 0 {
		cmd.Env = append(cmd.Env, fmt.Sprintf("GOMAXPROCS=%d", gomaxprocs))
	}
	var errb bytes.Buffer
	cmd.Stderr = &errb
	cmd.Stdout = nil
	if err := cmd.Start(); err != nil {
		return procResult{exit: -1, stderr: err.Error()}
	}
	done := make(chan error, 1)
	go func() { done <- cmd.Wait() }()
	var res procResult
	select {
	case err := <-done:
		if err != nil {
			res.exit = 1
			if ee, ok := err.(*exec.ExitError); ok {
				res.exit = ee.ExitCode()
			}
		}
	case <-time.After(budget):
		res.stuck = true
		_ = cmd.Process.Signal(syscall.SIGQUIT)
		select {
		case <-done:
		case <-time.After(10 * time.Second):
			_ = cmd.Process.Kill()
			<-done
		}
		dump := errb.String()
		res.deadlock = !strings.Contains(dump, "[running]") && !strings.Contains(dump, "[runnable]") && !strings.Contains(dump, "[syscall") && strings.Contains(dump, "goroutine ")
		res.exit = -1
	}
	res.stderr = errb.String()
	return res
}

// rawName: the directory component "@gbk" of a generated path stands for a name that is not valid UTF-8 (a GBK-encoded
// folder name from a legacy system); it is substituted when the tree is written because JSON cannot carry the bytes.
func rawName(p string) string { return strings.ReplaceAll(p, "@gbk", "batch-\xd1\xf9\xb1\xbe") }

func (c c13Case) materialise(dir string) (map[string][]byte, error) {
	files := map[string][]byte{}
	for _, f := range c.Files {
		p := filepath.Join(dir, rawName(f.Path))
		if err := os.MkdirAll(filepath.Dir(p), 0o755); err != nil {
			return nil, err
		}
		data := gen.Pack(f.Seq.Expand())
		if err := os.WriteFile(p, data, 0o644); err != nil {
			return nil, err
		}
		files[f.Path] = data
	}
	for i, e := range c.Extras {
		p := filepath.Join(dir, e)
		_ = os.MkdirAll(filepath.Dir(p), 0o755)
		size := 10 + 37*i
		if i < len(c.ExtraSizes) {
			size = c.ExtraSizes[i]
		}
		_ = os.WriteFile(p, gen.NewRng(uint64(i)).Bytes(size), 0o644)
	}
	if c.DirBin != "" {
		p := filepath.Join(dir, c.DirBin)
		_ = os.MkdirAll(p, 0o755)
		_ = os.WriteFile(filepath.Join(p, "readme.txt"), []byte("not a sample"), 0o644)
	}
	return files, nil
}

// judgeReport: header + exactly one row per file, each cell = library value.
func judgeReport(c c13Case, header string, rows [][]string, files map[string][]byte) error {
	cols := strings.Split(strings.TrimSuffix(header, "\n"), ",")
	if len(cols) < 2 {
		return violation("header", "report header has %d columns", len(cols))
	}
	cols = cols[1:]
	if len(rows) != len(files) {
		var names []string
		for _, r := range rows {
			names = append(names, r[0])
		}
		return violation("row-count", "scale %s, %d workers: report has %d rows for %d sample files (rows: %v)", c.Scale, c.Workers, len(rows), len(files), names)
	}
	// expected values per file
	type exp struct {
		path string
		vals []float64
		used bool
	}
	var exps []*exp
	for p, data := range files {
		v, err := expectedRow(cols, data)
		if err != nil {
			return err
		}
		exps = append(exps, &exp{path: p, vals: v})
	}
	for _, r := range rows {
		if len(r)-1 != len(cols) {
			return violation("row-width", "scale %s: row %q has %d value columns, header has %d", c.Scale, r[0], len(r)-1, len(cols))
		}
		// candidates: unused files with this base name
		var firstBad string
		matched := false
		any := false
		for _, e := range exps {
			if e.used || filepath.Base(e.path) != r[0] {
				continue
			}
			any = true
			bad := -1
			for i := range cols {
				if !cellOK(r[i+1], e.vals[i]) {
					bad = i
					break
				}
			}
			if bad < 0 {
				e.used = true
				matched = true
				break
			}
			if firstBad == "" {
				firstBad = fmt.Sprintf("column %d %q: report has %s, library value for %s is %0.6f", bad+1, cols[bad], strings.TrimSpace(r[bad+1]), e.path, e.vals[bad])
			}
		}
		if !any {
			return violation("row-name", "scale %s: row named %q does not correspond to an (unmatched) sample file", c.Scale, r[0])
		}
		if !matched {
			// stable key: scale + first wrong column
			i := strings.Index(firstBad, "\"")
			j := strings.Index(firstBad[i+1:], "\"")
			return violation(fmt.Sprintf("cell:%s:%s", c.Scale, strings.ReplaceAll(firstBad[i+1:i+1+j], " ", "_")), "scale %s, row %q: %s", c.Scale, r[0], firstBad)
		}
	}
	return nil
}

func parseReport(b []byte) (string, [][]string) {
	lines := strings.Split(string(b), "\n")
	if len(lines) == 0 {
		return "", nil
	}
	var rows [][]string
	for _, l := range lines[1:] {
		if l == "" {
			continue
		}
		rows = append(rows, strings.Split(l, ", "))
	}
	return lines[0] + "\n", rows
}

func checkC13(c c13Case) (Outcome, error) {
	hs, err := headers()
	if err != nil {
		return Outcome{Skip: "INCONCLUSIVE shim: " + err.Error()}, nil
	}
	dir := newScratch("c13")
	defer os.RemoveAll(dir)
	in := filepath.Join(dir, "in")
	if c.InputStyle == "hidden" {
		in = filepath.Join(dir, ".in_hidden")
	}
	out := Outcome{Classes: []string{"scale:" + c.Scale}}
	switch {
	case len(c.Files) > c.Workers:
		out.Classes = append(out.Classes, "files>workers")
	case len(c.Files) < c.Workers:
		out.Classes = append(out.Classes, "workers>files")
	}
	out.NonTrivial = len(c.Files) >= 2 && len(c.Files) != c.Workers
	if c.DirBin != "" {
		out.Classes = append(out.Classes, "directory-named-like-a-sample")
	}
	switch c.Scale {
	case "1E8hdr":
		// main's scale switch: sparse 12.5 MB files; read the header line it writes before any worker finishes, then kill
		_ = os.MkdirAll(in, 0o755)
		for _, f := range c.Files {
			p := filepath.Join(in, f.Path)
			_ = os.MkdirAll(filepath.Dir(p), 0o755)
			fh, err := os.Create(p)
			if err != nil {
				return Outcome{Skip: "INCONCLUSIVE cannot create scratch file"}, nil
			}
			_ = fh.Truncate(12500000)
			fh.Close()
		}
		rep := filepath.Join(dir, "report.csv")
		cmd := exec.Command(os.Getenv("VERIF_BIN_RDDETECTOR"), "-i", in, "-o", rep, "-n", "1")
		cmd.Env = append(os.Environ(), "GOMAXPROCS=2")
		if err := cmd.Start(); err != nil {
			return Outcome{Skip: "INCONCLUSIVE cannot start rddetector"}, nil
		}
		deadline := time.Now().Add(30 * time.Second)
		var got string
		for time.Now().Before(deadline) {
			b, _ := os.ReadFile(rep)
			if i := bytes.IndexByte(b, '\n'); i >= 0 {
				got = string(b[:i+1])
				break
			}
			time.Sleep(50 * time.Millisecond)
		}
		_ = cmd.Process.Kill()
		_, _ = cmd.Process.Wait()
		out.NonTrivial = true
		if got == "" {
			return out, violation("1e8-header", "rddetector on 12.5 MB files wrote no header line within 30 s")
		}
		if got != hs["1E8"] {
			return out, violation("1e8-header", "rddetector on 100000000-bit files wrote the header %q..., want the 10^8 header", clip(got, 80))
		}
		return out, nil
	case "1E8":
		files, err := c.materialise(in)
		if err != nil {
			return Outcome{Skip: "INCONCLUSIVE scratch: " + err.Error()}, nil
		}
		var paths []string
		for _, f := range c.Files {
			paths = append(paths, filepath.Join(in, rawName(f.Path)))
		}
		shimBin := os.Getenv("VERIF_BIN_SHIM")
		if c.Race {
			shimBin = os.Getenv("VERIF_BIN_SHIM_RACE")
			out.Classes = append(out.Classes, "race-detector-build")
		}
		b, err := shimCallBin(shimBin, "VERIF_SHIM=worker", "VERIF_SHIM_SCALE=1E8", fmt.Sprintf("VERIF_SHIM_WORKERS=%d", c.Workers), "VERIF_SHIM_FILES="+strings.Join(paths, ":"))
		if err != nil && strings.Contains(err.Error(), "DATA RACE") {
			return out, violation("race:1E8", "worker_1E8 (%d files, %d workers): the race detector reports a data race:\n%s", len(paths), c.Workers, clip(err.Error(), 1800))
		}
		if err != nil {
			return out, violation("worker-crash:1E8", "worker_1E8 on %d files crashed: %v", len(paths), err)
		}
		var res struct {
			Header string
			Rows   []struct {
				Name string
				P, Q []float64
			}
		}
		if err := json.Unmarshal(b, &res); err != nil {
			return Outcome{Skip: "INCONCLUSIVE shim output: " + err.Error()}, nil
		}
		var rows [][]string
		for _, r := range res.Rows {
			row := []string{r.Name}
			for j := range r.P {
				row = append(row, fmt.Sprintf("%0.6f", r.P[j]))
				if j < len(r.Q) {
					row = append(row, fmt.Sprintf("%0.6f", r.Q[j]))
				}
			}
			rows = append(rows, row)
		}
		if e := judgeReport(c, res.Header, rows, files); e != nil {
			if _, ok := e.(errUninterpretable); ok {
				return Outcome{Skip: "INCONCLUSIVE " + e.Error()}, nil
			}
			return out, e
		}
		return out, nil
	}
	files, err := c.materialise(in)
	if err != nil {
		return Outcome{Skip: "INCONCLUSIVE scratch: " + err.Error()}, nil
	}
	rep := filepath.Join(dir, "out", "report.csv")
	if c.ReportIn != "" {
		rep = filepath.Join(in, c.ReportIn)
		out.Classes = append(out.Classes, "report-inside-input-tree")
	}
	budget := 3 * time.Minute
	if c.Scale == "1E6" {
		budget = time.Duration(2+len(c.Files)) * 2 * time.Minute
	}
	if c.Stale > 0 {
		out.Classes = append(out.Classes, "report-path-already-exists")
		_ = os.MkdirAll(filepath.Dir(rep), 0o755)
		var old strings.Builder
		old.WriteString(hs[c.Scale])
		for i := 0; old.Len() < c.Stale; i++ {
			fmt.Fprintf(&old, "old_sample_%d.bin", i)
			for j := 0; j < 44; j++ {
				old.WriteString(", 0.500000")
			}
			old.WriteString("\n")
		}
		_ = os.WriteFile(rep, []byte(old.String()), 0o644)
	}
	tool := os.Getenv("VERIF_BIN_RDDETECTOR")
	if c.Race {
		tool = os.Getenv("VERIF_BIN_RDDETECTOR_RACE")
		if c.Scale == "1E6" {
			budget *= 5 // the race detector slows the statistics down about tenfold; 2*10^4-bit runs stay far below the plain budget
		}
		out.Classes = append(out.Classes, "race-detector-build")
	}
	inArg := in
	switch c.InputStyle {
	case "rel":
		inArg = "in"
	case "dotrel":
		inArg = "./in"
	case "parent":
		inArg = "../" + filepath.Base(dir) + "/in"
	case "slash":
		inArg = in + "/"
	case "hidden":
		inArg = ".in_hidden"
	}
	if c.InputStyle != "" {
		out.Classes = append(out.Classes, "input-path:"+c.InputStyle)
	}
	var pr procResult
	if c.FdLimit > 0 {
		out.Classes = append(out.Classes, fmt.Sprintf("fd-limit:%d", c.FdLimit))
		pr = runTool(dir, budget, c.Procs, "", "sh", "-c", fmt.Sprintf(`ulimit -n %d && exec "$0" "$@"`, c.FdLimit), tool, "-i", inArg, "-o", rep, "-n", strconv.Itoa(c.Workers))
	} else {
		pr = runTool(dir, budget, c.Procs, "", tool, "-i", inArg, "-o", rep, "-n", strconv.Itoa(c.Workers))
	}
	if strings.Contains(pr.stderr, "WARNING: DATA RACE") {
		i := strings.Index(pr.stderr, "WARNING: DATA RACE")
		return out, violation("race:"+c.Scale, "rddetector (%s, %d files, %d workers): the race detector reports a data race:\n%s", c.Scale, len(c.Files), c.Workers, clip(pr.stderr[i:], 1800))
	}
	if pr.stuck {
		if pr.deadlock {
			return out, violation("no-termination", "rddetector (%s, %d files, %d workers) does not terminate: every goroutine is blocked\n%s", c.Scale, len(c.Files), c.Workers, clip(pr.stderr, 2500))
		}
		return Outcome{Skip: "INCONCLUSIVE rddetector still running at the budget"}, nil
	}
	if pr.exit != 0 {
		key := "exit"
		if c.DirBin != "" {
			key = "exit:directory-named-like-a-sample"
		}
		return out, violation(key, "rddetector (%s, %d files, %d workers, dir-named-like-sample=%q) exited with status %d:\n%s", c.Scale, len(c.Files), c.Workers, c.DirBin, pr.exit, clip(tailPanic(pr.stderr), 1500))
	}
	b, err := os.ReadFile(rep)
	if err != nil {
		return out, violation("no-report", "rddetector exited 0 but wrote no report: %v", err)
	}
	header, rows := parseReport(b)
	if header != hs[c.Scale] {
		return out, violation("header", "report header for scale %s is not the scale's header constant (got %q...)", c.Scale, clip(header, 60))
	}
	if e := judgeReport(c, header, rows, files); e != nil {
		if _, ok := e.(errUninterpretable); ok {
			return Outcome{Skip: "INCONCLUSIVE " + e.Error()}, nil
		}
		return out, e
	}
	return out, nil
}

func tailPanic(s string) string {
	if i := strings.Index(s, "panic:"); i >= 0 {
		return s[i:]
	}
	if i := strings.Index(s, "fatal error:"); i >= 0 {
		return s[i:]
	}
	if len(s) > 1500 {
		return s[len(s)-1500:]
	}
	return s
}

// drawName: file base names; one in four uses characters that are legal in file names but special to formatters, shells or
// CSV readers (never "/", a newline or the ", " column separator).
func drawName(t *rapid.T) string {
	if rapid.IntRange(0, 3).Draw(t, "exotic_name") == 0 {
		return rapid.StringMatching(`[a-zA-Z0-9_% .+=@#()!~^&;'\[\]{}样本é\-]{1,12}`).Draw(t, "name")
	}
	return rapid.StringMatching(`[a-zA-Z0-9_\-]{1,10}`).Draw(t, "name")
}

func genC13(t *rapid.T) c13Case {
	c := c13Case{Scale: envOr("VERIF_SCALE", "2E4")}
	maxFiles := 40
	nbits := 20000
	switch c.Scale {
	case "1E6":
		maxFiles, nbits = 3, 1000000
	case "1E8":
		maxFiles = 4
	case "1E8hdr":
		maxFiles = 2
	}
	if v := envInt("VERIF_MAXFILES", 0); v > 0 && v < maxFiles {
		maxFiles = v
	}
	nf := rapid.IntRange(max(1, min(envInt("VERIF_MINFILES", 1), maxFiles)), maxFiles).Draw(t, "files")
	dirs := []string{"", "", "a", "a/b", "a/b/c", "x", "a/@gbk", "@gbk"}
	seen := map[string]bool{}
	for i := 0; i < nf; i++ {
		d := rapid.SampledFrom(dirs).Draw(t, "dir")
		name := drawName(t) + rapid.SampledFrom([]string{".bin", ".bin", ".dat"}).Draw(t, "suffix")
		p := filepath.Join(d, name)
		if seen[p] { // keep the drawn number of files: make the path unique instead of dropping the file
			p = filepath.Join(d, fmt.Sprintf("f%d_%s", i, name))
		}
		seen[p] = true
		n := nbits
		if c.Scale == "1E8" {
			n = 8 * rapid.IntRange(12500, 25000).Draw(t, "bytes")
		}
		var q gen.Seq
		if c.Scale == "1E8hdr" {
			q = gen.Seq{Family: "constant", N: 8}
		} else {
			q = gen.DrawSeq(t, n, []string{"uniform", "uniform", "uniform", "biased", "markov", "periodic", "constant", "sparse", "runs", "nearflat", "nearflat", "debruijn", "bytewords", "prefixconst"})
		}
		c.Files = append(c.Files, c13File{Path: p, Seq: q})
	}
	for i := rapid.IntRange(0, 5).Draw(t, "extras"); i > 0; i-- {
		c.Extras = append(c.Extras, filepath.Join(rapid.SampledFrom(dirs).Draw(t, "xdir"), drawName(t)+rapid.SampledFrom([]string{".txt", ".csv", ".bin.bak", "", ".BIN"}).Draw(t, "xsuffix")))
		c.ExtraSizes = append(c.ExtraSizes, rapid.SampledFrom([]int{0, 17, 2499, 2500, 2501, 4096, 125000, 200000}).Draw(t, "xsize"))
	}
	if c.Scale != "1E8" && rapid.IntRange(0, 5).Draw(t, "dirbin") == 0 {
		c.DirBin = filepath.Join(rapid.SampledFrom(dirs).Draw(t, "bdir"), "zz"+drawName(t)+rapid.SampledFrom([]string{".bin", ".dat"}).Draw(t, "bsuffix"))
	}
	c.Workers = rapid.IntRange(1, 64).Draw(t, "workers")
	if rapid.Bool().Draw(t, "few") {
		c.Workers = rapid.IntRange(1, 4).Draw(t, "workers")
	}
	c.Procs = rapid.SampledFrom([]int{1, 2, 16}).Draw(t, "gomaxprocs")
	if c.Scale != "1E8" && c.Scale != "1E8hdr" && rapid.IntRange(0, 2).Draw(t, "stale") == 0 {
		c.Stale = rapid.SampledFrom([]int{1, 500, 20000, 400000}).Draw(t, "stale_bytes")
	}
	if c.Scale != "1E8" && c.Scale != "1E8hdr" && rapid.IntRange(0, 3).Draw(t, "report_in") == 0 {
		c.ReportIn = filepath.Join(rapid.SampledFrom([]string{"", "a", "a/b"}).Draw(t, "rdir"), rapid.SampledFrom([]string{"0report.csv", "report.csv", "m.csv", "zz_report.csv", "RandomnessTestReport.csv"}).Draw(t, "rname"))
	}
	if c.Scale != "1E8" && c.Scale != "1E8hdr" {
		c.InputStyle = rapid.SampledFrom([]string{"", "", "rel", "dotrel", "parent", "hidden", "slash"}).Draw(t, "input_style")
	}
	if v := envInt("VERIF_WORKERS", 0); v > 0 { // shards that pin "one worker, several files" (a worker handles consecutive files)
		c.Workers = v
	}
	c.Race = envInt("VERIF_RACE_BIN", 0) == 1
	return c
}

func TestC13(t *testing.T) { runProp(t, "C13", genC13, checkC13) }

// TestC13ManyFiles: a directory with more sample files than the usual descriptor limit (1024), in nested directories,
// processed by few and by many workers; deterministic.
func TestC13ManyFiles(t *testing.T) {
	nf := envInt("VERIF_FILES", 1100)
	var cases []c13Case
	for _, w := range []int{3, 64} {
		c := c13Case{Scale: "2E4", Workers: w, FdLimit: 1024}
		for i := 0; i < nf; i++ {
			fam := []string{"uniform", "biased", "nearflat", "markov"}[i%4]
			q := gen.Seq{Family: fam, N: 20000, Seed: uint64(9000 + i), F: 0.47, A: 7}
			c.Files = append(c.Files, c13File{Path: filepath.Join([]string{"", "a", "a/b", "x/y/z"}[i%4], fmt.Sprintf("s%04d.%s", i, []string{"bin", "dat"}[i%2])), Seq: q})
		}
		cases = append(cases, c)
	}
	enumerate(t, "C13", cases, checkC13)
}

// TestC13SlowFirst: 10^6-bit scale, few workers, many more files than workers, and one file whose tests take ten times longer
// than those of the files that follow it in walk order (random content against constant / short-period content: linear
// complexity dominates). Results then finish far out of order. Deterministic.
func TestC13SlowFirst(t *testing.T) {
	var cases []c13Case
	for _, w := range []int{2, 3} {
		c := c13Case{Scale: "1E6", Workers: w}
		for i := 0; i < 5*w+3; i++ {
			q := gen.Seq{Family: "periodic", N: 1000000, Bits: []string{"01", "0011", "00010111", "1"}[i%4]}
			if i == 0 || i == 2*w+1 {
				q = gen.Seq{Family: "uniform", N: 1000000, Seed: uint64(60 + i)}
			}
			c.Files = append(c.Files, c13File{Path: filepath.Join([]string{"", "a"}[i/(3*w)%2], fmt.Sprintf("f%02d.%s", i, []string{"bin", "dat"}[i%2])), Seq: q})
		}
		cases = append(cases, c)
	}
	enumerate(t, "C13", cases, checkC13)
}
