package props

import (
	"fmt"
	"runtime"
	"sync"
	"testing"

	"github.com/Trisia/randomness/detect"
	"pgregory.net/rapid"

	"verif/harness/gen"
)

// C18: tests are pure (input untouched, deterministic) and safe to call concurrently.
// The driver runs this check in a -race binary as well.

type c18Task struct {
	Test  int  `json:"test"`  // 0..14 registry tests; 15 = Round12, 16 = Round15
	Param int  `json:"param"` // documented parameter
	Input int  `json:"input"` // index of the shared input
	Bytes bool `json:"bytes"` // byte entry point / runner (true) or bit entry point (false)
}

type c18Case struct {
	Inputs []gen.Seq `json:"inputs"` // N multiple of 8
	Tasks  []c18Task `json:"tasks"`
	Procs  int       `json:"gomaxprocs"`
}

type c18Result struct {
	v   []vals
	err interface{}
}

func runTask(tk c18Task, data [][]byte, bits [][]bool) (res c18Result) {
	defer func() {
		if x := recover(); x != nil {
			res.err = x
		}
	}()
	d, e := data[tk.Input], bits[tk.Input]
	switch tk.Test {
	case 15, 16:
		var rs = detect.Round12
		if tk.Test == 16 {
			rs = detect.Round15
		}
		for i, r := range rs(d) {
			res.v = append(res.v, resultVals(r, i))
		}
	default:
		t := tests[tk.Test]
		if tk.Bytes {
			if tk.Param == t.Default || len(t.Params) == 1 {
				res.v = append(res.v, resultVals(t.Runner(d), t.Idx))
			}
			res.v = append(res.v, t.Bytes(d, tk.Param))
		} else {
			res.v = append(res.v, t.Bits(e, tk.Param))
		}
	}
	return res
}

func equalResults(a, b c18Result) bool {
	if (a.err == nil) != (b.err == nil) || len(a.v) != len(b.v) {
		return false
	}
	for i := range a.v {
		if !sameBits(a.v[i], b.v[i]) {
			return false
		}
	}
	return true
}

func checkC18(c c18Case) (Outcome, error) {
	data := make([][]byte, len(c.Inputs))
	bits := make([][]bool, len(c.Inputs))
	snapD := make([][]byte, len(c.Inputs))
	snapB := make([][]bool, len(c.Inputs))
	for i, q := range c.Inputs {
		bits[i] = q.Expand()
		data[i] = gen.Pack(bits[i])
		snapD[i] = append([]byte{}, data[i]...)
		snapB[i] = append([]bool{}, bits[i]...)
	}
	untouched := func(when string) error {
		for i := range data {
			for j := range data[i] {
				if data[i][j] != snapD[i][j] {
					return violation("input-modified", "%s: byte %d of input %d was modified (%#x -> %#x)", when, j, i, snapD[i][j], data[i][j])
				}
			}
			for j := range bits[i] {
				if bits[i][j] != snapB[i][j] {
					return violation("input-modified", "%s: bit %d of input %d was modified", when, j, i)
				}
			}
		}
		return nil
	}
	distinctTests := map[int]bool{}
	shared := map[int]int{}
	for _, tk := range c.Tasks {
		distinctTests[tk.Test] = true
		shared[tk.Input]++
	}
	sharing := false
	for _, k := range shared {
		if k >= 2 {
			sharing = true
		}
	}
	out := Outcome{NonTrivial: sharing && len(distinctTests) >= 2, Classes: []string{fmt.Sprintf("goroutines<=%d", bucket(len(c.Tasks))), "gomaxprocs:" + itoa(c.Procs)}}
	for _, tk := range c.Tasks {
		name := "round"
		if tk.Test < 15 {
			name = tests[tk.Test].Key
		}
		out.Classes = append(out.Classes, "task:"+name)
	}
	// solo results
	solo := make([]c18Result, len(c.Tasks))
	for i, tk := range c.Tasks {
		solo[i] = runTask(tk, data, bits)
		if solo[i].err != nil {
			return out, violation("panic", "task %+v panicked when run alone: %v", tk, solo[i].err)
		}
	}
	if err := untouched("after solitary calls"); err != nil {
		return out, err
	}
	// determinism: a second solitary call
	for i, tk := range c.Tasks {
		if again := runTask(tk, data, bits); !equalResults(again, solo[i]) {
			return out, violation("nondeterministic", "task %+v: two solitary calls on the same data returned %v and %v", tk, solo[i].v, again.v)
		}
	}
	// concurrent
	if c.Procs > 0 {
		old := runtime.GOMAXPROCS(c.Procs)
		defer runtime.GOMAXPROCS(old)
	}
	conc := make([]c18Result, len(c.Tasks))
	var wg sync.WaitGroup
	start := make(chan struct{})
	for i, tk := range c.Tasks {
		wg.Add(1)
		go func(i int, tk c18Task) {
			defer wg.Done()
			<-start
			conc[i] = runTask(tk, data, bits)
		}(i, tk)
	}
	close(start)
	wg.Wait()
	for i, tk := range c.Tasks {
		if !equalResults(conc[i], solo[i]) {
			return out, violation("concurrent-differs", "task %+v: alone %v, among %d concurrent invocations %v (panic: %v)", tk, solo[i].v, len(c.Tasks), conc[i].v, conc[i].err)
		}
	}
	if err := untouched("after concurrent calls"); err != nil {
		return out, err
	}
	return out, nil
}

func genC18(t *rapid.T) c18Case {
	c := c18Case{Procs: rapid.SampledFrom([]int{2, 4, 16}).Draw(t, "gomaxprocs")}
	ni := rapid.IntRange(1, 4).Draw(t, "inputs")
	for i := 0; i < ni; i++ {
		nb := rapid.IntRange(1200, 4000).Draw(t, "nbytes")
		c.Inputs = append(c.Inputs, gen.DrawSeq(t, nb*8, []string{"uniform", "uniform", "biased", "markov", "periodic", "sparse"}))
	}
	nt := rapid.IntRange(2, 24).Draw(t, "goroutines")
	if rapid.IntRange(0, 4).Draw(t, "many") == 0 {
		nt = rapid.IntRange(25, 64).Draw(t, "goroutines")
	}
	for i := 0; i < nt; i++ {
		tk := c18Task{Test: rapid.IntRange(0, 16).Draw(t, "test"), Input: rapid.IntRange(0, ni-1).Draw(t, "input"), Bytes: rapid.Bool().Draw(t, "bytes")}
		if tk.Test < 15 {
			td := tests[tk.Test]
			tk.Param = rapid.SampledFrom(td.Params).Draw(t, "param")
			if td.Key == "lincomp" && tk.Param == 5000 {
				tk.Param = 1000
			}
			if td.Key == "block" && tk.Param > 1200*8 { // the block length must not exceed the sequence (precondition m <= n)
				tk.Param = 1000
			}
		}
		c.Tasks = append(c.Tasks, tk)
	}
	return c
}

func TestC18(t *testing.T) { runPropJ(t, "C18", genC18, checkC18, true) }
