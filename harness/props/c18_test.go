package props

import (
	"fmt"
	"runtime"
	"sync"
	"testing"

	rn "github.com/Trisia/randomness"
	"github.com/Trisia/randomness/detect"
	"pgregory.net/rapid"

	"verif/harness/gen"
)

// C18: tests are pure (input untouched, deterministic) and safe to call concurrently.
// The driver runs this check in a -race binary as well.

type c18Task struct {
	Test  int  `json:"test"`  // 0..14 registry tests; 15 = Round12, 16 = Round15
	Param int  `json:"param"` // documented parameter
	Input int  `json:"input"` // index of the shared input
	Bytes bool `json:"bytes"` // byte entry point / runner (true) or bit entry point (false)
}

type c18Case struct {
	Inputs []gen.Seq `json:"inputs"` // N multiple of 8
	Tasks  []c18Task `json:"tasks"`
	Procs  int       `json:"gomaxprocs"`
	Reps   int       `json:"reps,omitempty"` // each goroutine repeats its call this many times (0 = once): a long, oversubscribed concurrent phase
}

var scribbleSalt int

type c18Result struct {
	v   []vals
	err interface{}
}

func runTask(tk c18Task, data [][]byte, bits [][]bool) (res c18Result) {
	defer func() {
		if x := recover(); x != nil {
			res.err = x
		}
	}()
	d, e := data[tk.Input], bits[tk.Input]
	if len(e) < 9600 { // short input: keep only what is admissible at this length
		switch {
		case tk.Test >= 15:
			return res
		case len(e) < minBitsFor(tests[min(tk.Test, 14)], tk.Param) || tests[min(tk.Test, 14)].Key == "maurer" || tests[min(tk.Test, 14)].Key == "rank" || tests[min(tk.Test, 14)].Key == "lincomp":
			return res
		case tests[tk.Test].Key == "block" && tk.Param > len(e):
			return res
		}
	}
	switch tk.Test {
	case 17: // the rank test with another matrix shape the API accepts (Param = 100*M + Q); only purity is judged, not the value
		m, q := tk.Param/100, tk.Param%100
		res.v = append(res.v, v2(rn.MatrixRankProto(e, m, q)))
	case 15, 16:
		var rs = detect.Round12
		if tk.Test == 16 {
			rs = detect.Round15
		}
		for i, r := range rs(d) {
			res.v = append(res.v, resultVals(r, i))
		}
	default:
		t := tests[tk.Test]
		if tk.Bytes {
			if tk.Param == t.Default || len(t.Params) == 1 {
				res.v = append(res.v, resultVals(t.Runner(d), t.Idx))
			}
			res.v = append(res.v, t.Bytes(d, tk.Param))
		} else {
			res.v = append(res.v, t.Bits(e, tk.Param))
		}
	}
	return res
}

func equalResults(a, b c18Result) bool {
	if (a.err == nil) != (b.err == nil) || len(a.v) != len(b.v) {
		return false
	}
	for i := range a.v {
		if !sameBits(a.v[i], b.v[i]) {
			return false
		}
	}
	return true
}

func checkC18(c c18Case) (Outcome, error) {
	data := make([][]byte, len(c.Inputs))
	bits := make([][]bool, len(c.Inputs))
	snapD := make([][]byte, len(c.Inputs))
	snapB := make([][]bool, len(c.Inputs))
	// Inputs are handed over as windows of larger buffers (cap > len), the way a caller slices samples out
	// of one long capture; the guard regions before and after the window belong to the caller too.
	const guard = 64
	for i, q := range c.Inputs {
		e := q.Expand()
		bufB := make([]bool, guard+len(e)+guard)
		for k := range bufB {
			bufB[k] = k%3 == 0
		}
		copy(bufB[guard:], e)
		d := gen.Pack(e)
		bufD := make([]byte, guard+len(d)+guard)
		for k := range bufD {
			bufD[k] = byte(k * 7)
		}
		copy(bufD[guard:], d)
		bits[i] = bufB[guard : guard+len(e)]
		data[i] = bufD[guard : guard+len(d)]
		snapD[i] = append([]byte{}, bufD...)
		snapB[i] = append([]bool{}, bufB...)
	}
	untouched := func(when string) error {
		for i := range data {
			fullD := data[i][:cap(data[i])]
			for j, want := range snapD[i][guard:] {
				if fullD[j] != want {
					return violation("input-modified", "%s: byte %d of the buffer behind input %d (window length %d) was modified (%#x -> %#x)", when, j, i, len(data[i]), want, fullD[j])
				}
			}
			fullB := bits[i][:cap(bits[i])]
			for j, want := range snapB[i][guard:] {
				if fullB[j] != want {
					return violation("input-modified", "%s: bit %d of the buffer behind input %d (window length %d) was modified", when, j, i, len(bits[i]))
				}
			}
		}
		return nil
	}
	distinctTests := map[int]bool{}
	shared := map[int]int{}
	for _, tk := range c.Tasks {
		distinctTests[tk.Test] = true
		shared[tk.Input]++
	}
	sharing := false
	for _, k := range shared {
		if k >= 2 {
			sharing = true
		}
	}
	out := Outcome{NonTrivial: sharing && len(distinctTests) >= 2, Classes: []string{fmt.Sprintf("goroutines<=%d", bucket(len(c.Tasks))), "gomaxprocs:" + itoa(c.Procs)}}
	for _, q := range c.Inputs {
		switch {
		case q.N >= 65536:
			out.Classes = append(out.Classes, "input>=65536bits")
		case q.N < 9600:
			out.Classes = append(out.Classes, "input<9600bits")
		}
	}
	for _, tk := range c.Tasks {
		name := "round"
		if tk.Test == 17 {
			name = "rank-other-shape"
		} else if tk.Test < 15 {
			name = tests[tk.Test].Key
		}
		out.Classes = append(out.Classes, "task:"+name)
	}
	// solo results
	solo := make([]c18Result, len(c.Tasks))
	for i, tk := range c.Tasks {
		solo[i] = runTask(tk, data, bits)
		if solo[i].err != nil {
			return out, violation("panic", "task %+v panicked when run alone: %v", tk, solo[i].err)
		}
	}
	if err := untouched("after solitary calls"); err != nil {
		return out, err
	}
	// whatever the library returned belongs to the caller: overwrite the expansions it handed out (with a pattern that
	// changes from case to case), then call again
	scribbleSalt++
	for i := range data {
		e := rn.B2bitArr(data[i])
		for j := range e {
			e[j] = (j+scribbleSalt)%3 == 0
		}
		for _, v := range data[i][:min(len(data[i]), 64)] {
			b := rn.B2bit(v)
			for j := range b {
				b[j] = (j+scribbleSalt)%3 == 0
			}
		}
	}
	// determinism: a second solitary call
	for i, tk := range c.Tasks {
		if again := runTask(tk, data, bits); !equalResults(again, solo[i]) {
			return out, violation("nondeterministic", "task %+v: two solitary calls on the same data returned %v and %v", tk, solo[i].v, again.v)
		}
	}
	// concurrent
	if c.Procs > 0 {
		old := runtime.GOMAXPROCS(c.Procs)
		defer runtime.GOMAXPROCS(old)
	}
	conc := make([]c18Result, len(c.Tasks))
	var wg sync.WaitGroup
	start := make(chan struct{})
	for i, tk := range c.Tasks {
		wg.Add(1)
		go func(i int, tk c18Task) {
			defer wg.Done()
			<-start
			for k := 0; k < max(1, c.Reps); k++ {
				r := runTask(tk, data, bits)
				if k == 0 || !equalResults(r, solo[i]) { // keep the first deviating result
					conc[i] = r
					if k > 0 {
						return
					}
				}
			}
		}(i, tk)
	}
	close(start)
	if hung, dump := waitOrDeadlock(&wg); hung {
		return out, violation("deadlock", "%d concurrent invocations never return: every goroutine inside the library is parked for good\n%s", len(c.Tasks), dump)
	}
	for i, tk := range c.Tasks {
		if !equalResults(conc[i], solo[i]) {
			return out, violation("concurrent-differs", "task %+v: alone %v, among %d concurrent invocations %v (panic: %v)", tk, solo[i].v, len(c.Tasks), conc[i].v, conc[i].err)
		}
	}
	if err := untouched("after concurrent calls"); err != nil {
		return out, err
	}
	return out, nil
}

func genC18(t *rapid.T) c18Case {
	c := c18Case{Procs: rapid.SampledFrom([]int{2, 4, 16}).Draw(t, "gomaxprocs")}
	ni := rapid.IntRange(1, 4).Draw(t, "inputs")
	large := rapid.IntRange(0, 5).Draw(t, "large") == 0 // inputs of 72000 .. 1.04 million bits (beyond the sizes at which implementations switch to pooled or chunked buffers)
	if large {
		ni = rapid.IntRange(1, 3).Draw(t, "inputs_large")
	}
	for i := 0; i < ni; i++ {
		if large {
			c.Inputs = append(c.Inputs, gen.DrawSeq(t, 8*uniformInt(t, 9000, 130000, "nbytes_large"), []string{"uniform", "uniform", "biased", "markov"}))
			continue
		}
		nb := uniformInt(t, 1200, 4000, "nbytes")
		if rapid.IntRange(0, 3).Draw(t, "small") == 0 { // short admissible inputs (>= 128 bits): only the tests whose minimum allows it run on them
			nb = rapid.IntRange(16, 60).Draw(t, "nbytes_small")
		}
		c.Inputs = append(c.Inputs, gen.DrawSeq(t, nb*8, []string{"uniform", "uniform", "biased", "markov", "periodic", "sparse", "bytewords"}))
	}
	nt := rapid.IntRange(2, 24).Draw(t, "goroutines")
	if rapid.IntRange(0, 4).Draw(t, "many") == 0 {
		nt = rapid.IntRange(25, 64).Draw(t, "goroutines")
	}
	if large && nt > 16 {
		nt = 16
	}
	// half of the cases have a focus test that about half of the goroutines run (state shared between calls of one function:
	// pools, scratch buffers, memo tables); the others mix all tests evenly
	focus := -1
	if rapid.Bool().Draw(t, "focused") || large {
		focus = rapid.IntRange(0, 14).Draw(t, "focus_test")
		if large && focus == 12 {
			focus = 7
		}
	}
	if large { // large inputs: always several goroutines on the focus test, repeated calls, two processors
		nt = max(nt, 8)
		c.Reps = rapid.IntRange(4, 12).Draw(t, "reps_large")
		c.Procs = 2
	} else if rapid.IntRange(0, 2).Draw(t, "repeat") == 0 { // more goroutines than processors, each calling repeatedly: preemption inside the calls
		c.Reps = rapid.IntRange(2, 12).Draw(t, "reps")
		if large {
			c.Procs = 2
		}
	}
	for i := 0; i < nt; i++ {
		tk := c18Task{Test: rapid.IntRange(0, 17).Draw(t, "test"), Input: rapid.IntRange(0, ni-1).Draw(t, "input"), Bytes: rapid.Bool().Draw(t, "bytes")}
		if focus >= 0 && rapid.Bool().Draw(t, "on_focus") {
			tk.Test = focus
		}
		if large && (tk.Test == 12 || tk.Test >= 15) { // on large inputs: not the quadratic linear complexity and not the full rounds (cost)
			tk.Test = rapid.SampledFrom([]int{0, 1, 2, 3, 4, 5, 6, 7, 8, 10, 11}).Draw(t, "cheap_test")
		}
		if tk.Test == 17 {
			tk.Param = rapid.SampledFrom([]int{3232, 1632, 3216, 808, 3132, 3231, 132}).Draw(t, "shape")
		}
		if tk.Test < 15 {
			td := tests[tk.Test]
			tk.Param = rapid.SampledFrom(td.Params).Draw(t, "param")
			if td.Key == "lincomp" && tk.Param == 5000 {
				tk.Param = 1000
			}
			if td.Key == "block" && tk.Param > 1200*8 { // the block length must not exceed the sequence (precondition m <= n)
				tk.Param = 1000
			}
		}
		c.Tasks = append(c.Tasks, tk)
	}
	return c
}

func TestC18(t *testing.T) { runPropJ(t, "C18", genC18, checkC18, true) }

// c18Many: one entry point called Calls times in a row in the same process, alternating between two inputs of different
// length; every result must be bit-identical to the first result for that input ("returns bit-identical results when
// called again"), however many calls came before.
type c18Many struct {
	Test  int  `json:"test"`
	Param int  `json:"param"`
	Bytes bool `json:"bytes"`
	Calls int  `json:"calls"`
	Bits  int  `json:"bits,omitempty"` // input length (0 = the test's minimum)
}

func checkC18Many(c c18Many) (Outcome, error) {
	t := tests[c.Test]
	n := (max(minBitsFor(t, c.Param), 128) + 7) / 8 * 8
	out := Outcome{Classes: []string{"many-calls", "many-calls:" + t.Key}, NonTrivial: true}
	if c.Bits > 0 {
		n = c.Bits / 2 // the two inputs have n and 2n+8 bits
		if t.Key == "lincomp" {
			n = 1000000
		}
		out.Classes = []string{"huge-input", "huge-input:" + t.Key}
	}
	var ins [2][]bool
	var ind [2][]byte
	for i := range ins {
		ins[i] = gen.Seq{Family: "uniform", N: n*(1+i) + 8*i, Seed: uint64(400 + 10*c.Test + i)}.Expand()
		ind[i] = gen.Pack(ins[i])
	}
	call := func(i int) vals {
		if c.Bytes {
			return t.Bytes(ind[i], c.Param)
		}
		return t.Bits(ins[i], c.Param)
	}
	first := [2]vals{call(0), call(1)}
	for k := 0; k < c.Calls; k++ {
		if got := call(k & 1); !sameBits(got, first[k&1]) {
			return out, violation("many-calls:"+t.Key, "%s param=%d (bytes=%v): call number %d on the same %d-bit input returned %v, the first call returned %v", t.Key, c.Param, c.Bytes, k+3, len(ins[k&1]), got, first[k&1])
		}
	}
	return out, nil
}

// TestC18ManyCalls: more calls than a 16-bit counter can hold, for every test, documented parameter and entry point.
func TestC18ManyCalls(t *testing.T) {
	calls := envInt("VERIF_CALLS", 70000)
	part, parts := envInt("VERIF_PART", 0), envInt("VERIF_PARTS", 1)
	var cases []c18Many
	k := 0
	for _, td := range tests {
		for _, p := range td.Params {
			for _, by := range []bool{false, true} {
				k++
				if k%parts != part {
					continue
				}
				n := calls
				if td.Key == "lincomp" && p > 500 { // quadratic in the block length: 1000 -> a quarter, 5000 -> a hundredth of the calls
					n = calls * 500 * 500 / (p * p)
				}
				cases = append(cases, c18Many{Test: td.Idx, Param: p, Bytes: by, Calls: n})
			}
		}
	}
	enumerate(t, "C18", cases, checkC18Many)
}

// TestC18Huge: repeatability on 12 million bits (results assembled from several partial results must not depend on the order in
// which the parts finish): every test with its default parameter, both entry points, three calls each, bit-identical.
func TestC18Huge(t *testing.T) {
	part, parts := envInt("VERIF_PART", 0), envInt("VERIF_PARTS", 1)
	var cases []c18Many
	for _, td := range tests {
		if td.Idx%parts != part {
			continue
		}
		for _, by := range []bool{false, true} {
			cases = append(cases, c18Many{Test: td.Idx, Param: td.Default, Bytes: by, Calls: 3, Bits: 12000000})
		}
	}
	enumerate(t, "C18", cases, checkC18Many)
}

// TestC18Crowd: "any number of goroutines": 32 and 48 simultaneous invocations of ONE test on inputs beyond 2^20 bits (the DFT then
// transforms 2^21 points; about 150 MB of working memory per call), i.e. more callers than any fixed-size pool, semaphore or
// per-processor scratch table inside the library has slots.  Every test with its default parameter, both entry points mixed;
// results bit-identical to the solitary ones, and the crowd must come back (waitOrDeadlock).
func TestC18Crowd(t *testing.T) {
	part, parts := envInt("VERIF_PART", 0), envInt("VERIF_PARTS", 1)
	var cases []c18Case
	k := 0
	for _, td := range tests {
		if td.Key == "lincomp" { // quadratic: 1.1 million bits x 48 callers is out of budget; covered by the generated cases up to 10^6 bits
			continue
		}
		for _, crowd := range []int{32, 48} {
			k++
			if k%parts != part {
				continue
			}
			nbits := 1<<20 + 8*(1+3*td.Idx) // N = 2^21 for the DFT
			if crowd == 48 {
				nbits = 1<<20 + 1<<19 + 64
			}
			c := c18Case{Procs: 16, Inputs: []gen.Seq{
				{Family: "uniform", N: nbits, Seed: uint64(1000 + td.Idx)},
				{Family: "uniform", N: nbits, Seed: uint64(2000 + td.Idx)},
			}}
			for i := 0; i < crowd; i++ {
				c.Tasks = append(c.Tasks, c18Task{Test: td.Idx, Param: td.Default, Input: i % 2, Bytes: i%4 < 2})
			}
			cases = append(cases, c)
		}
	}
	enumerate(t, "C18", cases, checkC18)
}
