package props

import (
	"encoding/binary"
	"encoding/json"
	"fmt"
	"os"
	"sync"
	"sync/atomic"
	"testing"

	"github.com/Trisia/randomness/fft"
	"pgregory.net/rapid"

	"verif/harness/gen"
)

// Native go fuzz targets (thorough tier only).  Each decodes the fuzzer's bytes into a
// structured case and runs the same oracle (checkCase) as the rapid property.  Passing
// executions are only counted (fuzzing does ~10^4-10^5 executions per second); a failing
// one goes through judge() so that it gets a replay file and a stable key.

var (
	fuzzExecs   int64
	fuzzNT      sync.Map // hash -> struct{} (bounded)
	fuzzNTCount int64
)

func fuzzObserve(id string, raw []byte, nontrivial bool) {
	atomic.AddInt64(&fuzzExecs, 1)
	if nontrivial && atomic.LoadInt64(&fuzzNTCount) < 300000 {
		h := uint64(14695981039346656037)
		for _, b := range raw {
			h = (h ^ uint64(b)) * 1099511628211
		}
		if _, loaded := fuzzNT.LoadOrStore(h, struct{}{}); !loaded {
			atomic.AddInt64(&fuzzNTCount, 1)
		}
	}
}

// flushFuzz writes the worker's counters as an evidence fragment of its own (fuzz workers are separate processes).
func flushFuzz(id, path string) {
	n := atomic.LoadInt64(&fuzzExecs)
	if n == 0 || path == "" {
		return
	}
	var hs []uint64
	fuzzNT.Range(func(k, _ interface{}) bool { hs = append(hs, k.(uint64)); return true })
	buf := make([]byte, 8*len(hs))
	for i, h := range hs {
		binary.LittleEndian.PutUint64(buf[8*i:], h)
	}
	p := fmt.Sprintf("%s.fuzz-%d", path, os.Getpid())
	_ = os.WriteFile(p+".hashes", buf, 0o644)
	fr := map[string]interface{}{"property": id, "evaluations": n, "shrink_runs": 0, "skipped": map[string]int{}, "excluded_known": 0,
		"classes": map[string]int64{"native-fuzz-executions": n}, "samples": []interface{}{}, "failures": []interface{}{}, "max": map[string]float64{},
		"hash_file": p + ".hashes", "n_hashes": len(hs)}
	b, _ := json.Marshal(fr)
	_ = os.WriteFile(p, b, 0o644)
}

func fuzzJudge[C any](t *testing.T, id string, raw []byte, c C, check func(C) (Outcome, error)) {
	out, err := safely(check, c)
	if err == nil {
		fuzzObserve(id, raw, out.NonTrivial && out.Skip == "")
		return
	}
	currentTest = t.Name()
	if _, ferr := judge(id, c, check, false); ferr != nil {
		t.Fatalf("%s: %v", id, ferr)
	}
}

// FuzzLinearComplexity: bytes -> (m, bits); m = 1 + data[0]%40 (small blocks) or 500; bits from the rest.
func FuzzLinearComplexity(f *testing.F) {
	f.Add([]byte{7, 0x00, 0x01})
	f.Add([]byte{15, 0x00, 0x00, 0x00, 0x01, 0xff, 0xff})
	f.Add([]byte{39, 0x80, 0x00, 0x00, 0x00, 0x00})
	f.Add(append([]byte{255}, make([]byte, 63)...))
	one := append([]byte{255}, make([]byte, 63)...)
	one[63] = 0x10
	f.Add(one)
	f.Fuzz(func(t *testing.T, data []byte) {
		if len(data) < 2 || len(data) > 400 {
			return
		}
		m := 1 + int(data[0])%40
		if data[0] == 255 {
			m = 500
		}
		bits := gen.Unpack(data[1:])
		if len(bits) < m {
			return
		}
		var blocks []blockSpec
		for i := 0; i+m <= len(bits); i += m {
			blocks = append(blocks, blockSpec{Kind: "explicit", Bits: gen.BitString(bits[i : i+m])})
		}
		c := c04Case{Test: "lincomp", M: m, Blocks: blocks}
		fuzzJudge(t, "C04", data, c, checkC04)
	})
}

// FuzzRank: bytes -> consecutive 32x32 matrices (128 bytes each) + a tail.
func FuzzRank(f *testing.F) {
	f.Add(make([]byte, 128))
	id := make([]byte, 128)
	for i := 0; i < 32; i++ {
		id[i*4+i/8] = 0x80 >> uint(i%8)
	}
	f.Add(id)
	f.Add(append(append([]byte{}, id...), id[:100]...))
	f.Fuzz(func(t *testing.T, data []byte) {
		if len(data) < 128 || len(data) > 128*6 {
			return
		}
		bits := gen.Unpack(data)
		var blocks []blockSpec
		for i := 0; i+1024 <= len(bits); i += 1024 {
			blocks = append(blocks, blockSpec{Kind: "explicit", Bits: gen.BitString(bits[i : i+1024])})
		}
		c := c04Case{Test: "lincomp", M: 1024, Blocks: blocks} // reuse the explicit-block plumbing
		c.Test = "rankbits"
		fuzzJudge(t, "C04", data, c, checkC04Rankbits)
	})
}

// checkC04Rankbits: rank test on explicit matrices (used by FuzzRank).
func checkC04Rankbits(c c04Case) (Outcome, error) {
	var bits []bool
	for _, b := range c.Blocks {
		bits = append(bits, b.expand(1024)...)
	}
	cc := c04Case{Test: "rank"}
	return checkC04Bits(cc, bits)
}

// FuzzFFTNew: constructor arguments and wrong-length slices.
func FuzzFFTNew(f *testing.F) {
	for _, n := range []int64{-1, 0, 1, 2, 3, 1 << 20, 1<<27 + 1, 1 << 40, -1 << 62} {
		f.Add(n, uint16(0))
	}
	f.Fuzz(func(t *testing.T, n int64, l uint16) {
		if n > 1<<22 && n <= 1<<27 { // would allocate hundreds of MB per execution
			return
		}
		raw := []byte(fmt.Sprint(n, l))
		c := c19Case{Kind: "new", Arg: int(n)}
		fuzzJudge(t, "C19", raw, c, checkC19)
		if n >= 2 && n <= 4096 && int(l) != int(n) {
			if g, err := fft.New(int(n)); err == nil && g.N != int(l) && l < 5000 {
				e := 0
				for 1<<uint(e+1) <= int(n) {
					e++
				}
				fuzzJudge(t, "C19", raw, c19Case{Kind: "mismatch", Exp: e, Arg: int(l)}, checkC19)
			}
		}
	})
}

// FuzzIgamc: rapid's generator driven by the fuzzer's bytes (rapid.MakeFuzz).
func FuzzIgamc(f *testing.F) {
	f.Fuzz(rapid.MakeFuzz(func(rt *rapid.T) {
		c := genC06(rt)
		out, err := safely(checkC06, c)
		if err != nil {
			currentTest = "FuzzIgamc"
			if _, ferr := judge("C06", c, checkC06, false); ferr != nil {
				rt.Fatalf("C06: %v", ferr)
			}
		}
		fuzzObserve("C06", []byte(fmt.Sprint(c)), out.NonTrivial)
	}))
}
