package props

import (
	"encoding/json"
	"fmt"
	"os"
	"path/filepath"
	"runtime"
	"sync"
	"testing"

	rn "github.com/Trisia/randomness"

	"verif/harness/gen"
	"verif/harness/ref"
)

// A pool of classified samples: search guidance for composing streams that sit on a
// decision boundary (C07/C08/C10).  The annotations are never used by an oracle.
type poolEntry struct {
	Seed uint64 `json:"seed"`
	Pass int    `json:"pass"` // bit i set: registry item i passes
	QBin []int  `json:"qbin"` // per item: ten-bin index of Q
}

type pool struct {
	SampleBytes int         `json:"sample_bytes"`
	Items       int         `json:"items"`
	Entries     []poolEntry `json:"entries"`

	allPass   []int       // entries passing every item
	failing   [][]int     // per item: entries failing it
	byBin     [][10][]int // per item: all-pass entries by Q bin
	failByBin [][10][]int // per item: entries failing that item (and nothing before it), by Q bin
}

func sampleBytes(seed uint64, n int) []byte { return gen.NewRng(seed).Bytes(n) }

func classify(seed uint64, nbytes, items int) poolEntry {
	data := sampleBytes(seed, nbytes)
	e := poolEntry{Seed: seed, QBin: make([]int, items)}
	for i := 0; i < items; i++ {
		r := rn.TestMethodArr[i].Runner(data)
		if r.Pass {
			e.Pass |= 1 << uint(i)
		}
		e.QBin[i] = ref.Bin(r.Q)
	}
	return e
}

func corpusDir() string { return envOr("VERIF_CORPUS", "/verif/corpus") }

func loadPool(nbytes int) (*pool, error) {
	b, err := os.ReadFile(filepath.Join(corpusDir(), fmt.Sprintf("pool_%d.json", nbytes)))
	if err != nil {
		return nil, err
	}
	p := &pool{}
	if err := json.Unmarshal(b, p); err != nil {
		return nil, err
	}
	p.index()
	return p, nil
}

func (p *pool) index() {
	full := 1<<uint(p.Items) - 1
	p.failing = make([][]int, p.Items)
	p.byBin = make([][10][]int, p.Items)
	p.failByBin = make([][10][]int, p.Items)
	for k, e := range p.Entries {
		if e.Pass == full {
			p.allPass = append(p.allPass, k)
			for i := 0; i < p.Items; i++ {
				p.byBin[i][e.QBin[i]] = append(p.byBin[i][e.QBin[i]], k)
			}
		}
		for i := 0; i < p.Items; i++ {
			if e.Pass>>uint(i)&1 == 0 {
				p.failing[i] = append(p.failing[i], k)
				p.failByBin[i][e.QBin[i]] = append(p.failByBin[i][e.QBin[i]], k)
			}
		}
	}
}

// TestBuildCorpus (maintenance, not a check): VERIF_POOL_BYTES, VERIF_POOL_N, VERIF_POOL_OUT.
func TestBuildCorpus(t *testing.T) {
	out := os.Getenv("VERIF_POOL_OUT")
	if out == "" {
		t.Skip("maintenance entry point")
	}
	nbytes, n := envInt("VERIF_POOL_BYTES", 2500), envInt("VERIF_POOL_N", 1000)
	items := 15
	if nbytes < 1121 {
		items = 12
	}
	if nbytes == 2500 {
		items = 12
	}
	p := pool{SampleBytes: nbytes, Items: items, Entries: make([]poolEntry, n)}
	var wg sync.WaitGroup
	ch := make(chan int)
	for w := 0; w < runtime.NumCPU(); w++ {
		wg.Add(1)
		go func() {
			defer wg.Done()
			for k := range ch {
				p.Entries[k] = classify(uint64(0xC0FFEE00000+k), nbytes, items)
			}
		}()
	}
	for k := 0; k < n; k++ {
		ch <- k
	}
	close(ch)
	wg.Wait()
	b, _ := json.Marshal(p)
	if err := os.WriteFile(out, b, 0o644); err != nil {
		t.Fatal(err)
	}
}
