package props

import (
	"fmt"
	"testing"

	rn "github.com/Trisia/randomness"
	"pgregory.net/rapid"

	"verif/harness/gen"
	"verif/harness/ref"
)

// C04: rank, linear complexity, Maurer: never crash, equal to the standard's definition.

type blockSpec struct {
	Kind string `json:"kind"` // lfsr | zero | lastone | firstone | leadzeros | random | explicit
	L    int    `json:"l,omitempty"`
	Seed uint64 `json:"seed,omitempty"`
	Bits string `json:"bits,omitempty"`
}

type c04Case struct {
	Test     string      `json:"test"` // lincomp | rank | maurer
	M        int         `json:"m,omitempty"`
	Blocks   []blockSpec `json:"blocks,omitempty"`
	Tail     int         `json:"tail,omitempty"` // trailing bits that do not fill a block / matrix
	Seed     uint64      `json:"seed,omitempty"`
	Seq      *gen.Seq    `json:"seq,omitempty"`          // maurer: whole sequence recipe
	Alpha    []int       `json:"alpha,omitempty"`        // maurer: 7-bit patterns allowed in the initialisation segment
	Plant    []int       `json:"plant,omitempty"`        // maurer: pattern Plant[0] is removed everywhere and then planted at the 1-based block numbers Plant[1:] (chosen distances)
	Runner   bool        `json:"runner,omitempty"`       // go through the registry runner (byte input) as well
	PlantWin bool        `json:"plant_window,omitempty"` // remove the planted pattern only between the first and the last planted block (the rest of the sample stays ordinary, P stays moderate)
}

func lfsrBlock(m, L int, r *gen.Rng) []bool {
	out := make([]bool, m)
	if L <= 0 {
		return out
	}
	if L > m {
		L = m
	}
	taps := make([]bool, L+1) // c_1..c_L, c_L = 1
	for i := 1; i < L; i++ {
		taps[i] = r.Uint64()&1 == 1
	}
	taps[L] = true
	nz := false
	for i := 0; i < L; i++ {
		out[i] = r.Uint64()&1 == 1
		nz = nz || out[i]
	}
	if !nz {
		out[L-1] = true
	}
	for i := L; i < m; i++ {
		v := false
		for j := 1; j <= L; j++ {
			if taps[j] && out[i-j] {
				v = !v
			}
		}
		out[i] = v
	}
	return out
}

func (b blockSpec) expand(m int) []bool {
	r := gen.NewRng(b.Seed)
	out := make([]bool, m)
	switch b.Kind {
	case "lfsr":
		return lfsrBlock(m, b.L, r)
	case "zero":
	case "lastone":
		out[m-1] = true
	case "firstone":
		out[0] = true
	case "leadzeros": // L zeros, a one, then random: complexity L+1 when L >= m/2
		j := b.L
		if j > m-1 {
			j = m - 1
		}
		out[j] = true
		for i := j + 1; i < m; i++ {
			out[i] = r.Uint64()&1 == 1
		}
	case "random":
		for i := range out {
			out[i] = r.Uint64()&1 == 1
		}
	case "explicit":
		for i := 0; i < m && i < len(b.Bits); i++ {
			out[i] = b.Bits[i] == '1'
		}
	}
	return out
}

// rankMatrix: 32x32 matrix of rank <= r (product of random 32xr and rx32), row-major bits.
func rankMatrix(r int, g *gen.Rng) []bool {
	out := make([]bool, 1024)
	if r <= 0 {
		return out
	}
	A := make([]uint32, 32) // 32 x r (low r bits)
	B := make([]uint32, r)  // r x 32
	for i := range A {
		A[i] = uint32(g.Uint64())
		if r < 32 {
			A[i] &= (1 << uint(r)) - 1
		}
	}
	for i := range B {
		B[i] = uint32(g.Uint64())
	}
	for i := 0; i < 32; i++ {
		var row uint32
		for k := 0; k < r; k++ {
			if A[i]>>uint(k)&1 == 1 {
				row ^= B[k]
			}
		}
		for j := 0; j < 32; j++ {
			out[i*32+j] = row>>uint(31-j)&1 == 1
		}
	}
	return out
}

func (c c04Case) bits() []bool {
	var out []bool
	switch c.Test {
	case "lincomp":
		for _, b := range c.Blocks {
			out = append(out, b.expand(c.M)...)
		}
	case "rank":
		for _, b := range c.Blocks {
			out = append(out, rankMatrix(b.L, gen.NewRng(b.Seed))...)
		}
	case "maurer":
		out = c.Seq.Expand()
		if len(c.Alpha) > 0 { // rewrite the 1280 initialisation blocks from the restricted alphabet
			r := gen.NewRng(c.Seed)
			for i := 0; i < 1280; i++ {
				p := c.Alpha[r.Intn(len(c.Alpha))]
				for j := 0; j < 7; j++ {
					out[i*7+j] = p>>uint(6-j)&1 == 1
				}
			}
		}
		if len(c.Plant) > 1 {
			p := c.Plant[0] & 127
			nb := len(out) / 7
			set := func(blk, v int) { // blk is 1-based
				for j := 0; j < 7; j++ {
					out[(blk-1)*7+j] = v>>uint(6-j)&1 == 1
				}
			}
			for blk := 1; blk <= nb; blk++ {
				v := 0
				for j := 0; j < 7; j++ {
					v <<= 1
					if out[(blk-1)*7+j] {
						v |= 1
					}
				}
				if v == p && (!c.PlantWin || (blk > c.Plant[1] && blk < c.Plant[len(c.Plant)-1])) {
					set(blk, p^1)
				}
			}
			for _, blk := range c.Plant[1:] {
				if blk >= 1 && blk <= nb {
					set(blk, p)
				}
			}
		}
		return out
	}
	r := gen.NewRng(c.Seed ^ 0xabcdef)
	for i := 0; i < c.Tail; i++ {
		out = append(out, r.Uint64()&1 == 1)
	}
	return out
}

func checkC04(c c04Case) (Outcome, error) { return checkC04Bits(c, c.bits()) }

func checkC04Bits(c c04Case, bits []bool) (Outcome, error) {
	n := len(bits)
	out := Outcome{Classes: []string{c.Test}}
	what := fmt.Sprintf("%s m=%d n=%d blocks=%d tail=%d", c.Test, c.M, n, len(c.Blocks), c.Tail)
	runner := c.Runner && n%8 == 0
	var gp, gq, wp, wq float64
	switch c.Test {
	case "lincomp":
		out.Classes = append(out.Classes, fmt.Sprintf("lincomp/m=%d", mclass(c.M)))
		atyp := false
		for i := 0; i+c.M <= n; i += c.M {
			L := ref.BM(bits[i : i+c.M])
			d := 2*L - c.M
			if d < -2 || d > 3 {
				atyp = true
			}
		}
		if atyp {
			out.Classes = append(out.Classes, "lincomp/atypical-complexity")
		}
		for _, b := range c.Blocks {
			out.Classes = append(out.Classes, "block:"+b.Kind)
		}
		out.NonTrivial = atyp
		wp = ref.LinComp(bits, c.M)
		wq = wp
		gp, gq = rn.LinearComplexityProto(bits, c.M)
		if runner {
			bp, bq := rn.LinearComplexityTestBytes(gen.Pack(bits), c.M)
			if err := cmpPQ("lincomp-bytes", what+" (byte entry point)", bp, bq, wp, wq, "C04"); err != nil {
				return out, err
			}
			out.Classes = append(out.Classes, "via-byte-entry-point")
		}
		if runner && c.M == 500 {
			res := rn.LinearComplexity(gen.Pack(bits))
			if err := cmpPQ("lincomp-runner", what+" (registry runner)", res.P, res.Q, wp, wq, "C04"); err != nil {
				return out, err
			}
			out.Classes = append(out.Classes, "via-runner")
		}
	case "rank":
		deficient := false
		for i := 0; i+1024 <= n; i += 1024 {
			rows := make([]uint64, 32)
			for r := 0; r < 32; r++ {
				var v uint64
				for j := 0; j < 32; j++ {
					v <<= 1
					if bits[i+r*32+j] {
						v |= 1
					}
				}
				rows[r] = v
			}
			rk := ref.GF2Rank(rows)
			if rk <= 30 {
				deficient = true
			}
			out.Classes = append(out.Classes, fmt.Sprintf("rank=%d", rk))
		}
		out.NonTrivial = deficient
		wp = ref.Rank(bits)
		wq = wp
		gp, gq = rn.MatrixRankProto(bits, 32, 32)
		if runner {
			bp, bq := rn.MatrixRankTestBytes(gen.Pack(bits), 32, 32)
			if err := cmpPQ("rank-bytes", what+" (byte entry point)", bp, bq, wp, wq, "C04"); err != nil {
				return out, err
			}
			res := rn.MatrixRank(gen.Pack(bits))
			if err := cmpPQ("rank-runner", what+" (registry runner)", res.P, res.Q, wp, wq, "C04"); err != nil {
				return out, err
			}
			out.Classes = append(out.Classes, "via-runner")
		}
	case "maurer":
		seen := map[int]bool{}
		for i := 0; i < 1280; i++ {
			p := 0
			for j := 0; j < 7; j++ {
				p <<= 1
				if bits[i*7+j] {
					p |= 1
				}
			}
			seen[p] = true
		}
		if len(c.Plant) > 1 {
			out.Classes = append(out.Classes, "maurer/planted-distances")
			out.NonTrivial = true
		}
		if len(seen) < 128 {
			out.Classes = append(out.Classes, "maurer/pattern-missing-in-init")
			out.NonTrivial = true
		}
		out.Classes = append(out.Classes, "family:"+c.Seq.Family)
		wp, wq = ref.Maurer(bits)
		out.NonTrivial = out.NonTrivial || nontrivialP(wp)
		gp, gq = rn.MaurerUniversalTest(bits)
		if runner {
			bp, bq := rn.MaurerUniversalTestBytes(gen.Pack(bits))
			if err := cmpPQ("maurer-bytes", what+" (byte entry point)", bp, bq, wp, wq, "C04"); err != nil {
				return out, err
			}
			res := rn.MaurerUniversal(gen.Pack(bits))
			if err := cmpPQ("maurer-runner", what+" (registry runner)", res.P, res.Q, wp, wq, "C04"); err != nil {
				return out, err
			}
			out.Classes = append(out.Classes, "via-runner")
		}
	default:
		return out, fmt.Errorf("unknown test %q", c.Test)
	}
	return out, cmpPQ(c.Test, what, gp, gq, wp, wq, "C04")
}

func mclass(m int) int {
	switch {
	case m == 500 || m == 1000 || m == 5000:
		return m
	case m <= 16:
		return 16
	default:
		return 64
	}
}

func genC04(t *rapid.T) c04Case {
	test := rapid.SampledFrom([]string{"lincomp", "lincomp", "rank", "maurer"}).Draw(t, "test")
	if mode == "lincomp" || mode == "rank" || mode == "maurer" {
		test = mode
	}
	c := c04Case{Test: test, Seed: rapid.Uint64().Draw(t, "seed"), Runner: rapid.Bool().Draw(t, "runner")}
	switch test {
	case "lincomp":
		switch rapid.IntRange(0, 9).Draw(t, "mclass") {
		case 0, 1, 2, 3:
			c.M = 500
		case 4:
			c.M = 1000
		case 5:
			if thorough() {
				c.M = 5000
			} else {
				c.M = 1000
			}
		case 6, 7:
			c.M = rapid.IntRange(1, 16).Draw(t, "m")
		default:
			c.M = rapid.IntRange(17, 64).Draw(t, "m")
		}
		maxBlocks := 12
		if c.M >= 1000 {
			maxBlocks = 4
		}
		nb := rapid.IntRange(1, maxBlocks).Draw(t, "blocks")
		for i := 0; i < nb; i++ {
			b := blockSpec{Kind: rapid.SampledFrom([]string{"lfsr", "lfsr", "zero", "lastone", "firstone", "leadzeros", "random", "random"}).Draw(t, "kind"),
				Seed: rapid.Uint64().Draw(t, "bseed")}
			switch b.Kind {
			case "lfsr":
				if rapid.Bool().Draw(t, "nearhalf") {
					b.L = max(0, min(c.M, c.M/2+rapid.IntRange(-6, 6).Draw(t, "dl")))
				} else {
					b.L = rapid.IntRange(0, c.M).Draw(t, "l")
				}
			case "leadzeros":
				if rapid.Bool().Draw(t, "nearhalf") {
					b.L = max(0, min(c.M-1, c.M/2+rapid.IntRange(-6, 6).Draw(t, "dl")))
				} else {
					b.L = rapid.IntRange(0, c.M-1).Draw(t, "l")
				}
			}
			if c.M <= 16 && rapid.Bool().Draw(t, "explicit") {
				b = blockSpec{Kind: "explicit", Bits: gen.BitString(rapid.SliceOfN(rapid.Bool(), c.M, c.M).Draw(t, "bits"))}
			}
			c.Blocks = append(c.Blocks, b)
		}
		c.Tail = rapid.IntRange(0, c.M-1).Draw(t, "tail")
		if c.Runner && c.M == 500 { // make the input byte aligned so that the runner can be used
			for (nb*c.M+c.Tail)%8 != 0 {
				c.Tail++
			}
			if c.Tail >= c.M {
				c.Tail = 0
				c.Runner = (nb*c.M)%8 == 0
			}
		}
	case "rank":
		nm := rapid.IntRange(1, 40).Draw(t, "matrices")
		for i := 0; i < nm; i++ {
			var r int
			switch rapid.IntRange(0, 3).Draw(t, "rclass") {
			case 0:
				r = 32
			case 1:
				r = 31
			case 2:
				r = rapid.IntRange(28, 30).Draw(t, "r")
			default:
				r = rapid.IntRange(0, 32).Draw(t, "r")
			}
			c.Blocks = append(c.Blocks, blockSpec{Kind: "rank", L: r, Seed: rapid.Uint64().Draw(t, "mseed")})
		}
		c.Tail = rapid.SampledFrom([]int{0, 8, 1, 1023, 512, 16}).Draw(t, "tail")
	case "maurer":
		n := 7*1281 + rapid.IntRange(0, 6).Draw(t, "dmin")
		switch rapid.IntRange(0, 9).Draw(t, "nclass") {
		case 0:
		case 9:
			if thorough() {
				n = uniformInt(t, 60000, 1000000, "n")
			} else {
				n = uniformInt(t, 60000, 200000, "n")
			}
		default:
			n = uniformInt(t, 7*1281, 60000, "n")
		}
		q := gen.DrawSeq(t, n, []string{"uniform", "uniform", "uniform", "biased", "constant", "periodic", "markov", "alternating", "sparse", "prefixconst", "prefixconst", "nearflat"})
		c.Seq = &q
		if rapid.IntRange(0, 2).Draw(t, "plant") == 0 {
			// the statistic is a sum of log2(distance): plant one pattern at chosen block numbers so that chosen distances occur
			// (first occurrence at block d gives distance d, the table entry still being 0)
			nb := n / 7
			c.Plant = []int{rapid.IntRange(0, 127).Draw(t, "pattern")}
			pos := 0
			for k := rapid.IntRange(1, 6).Draw(t, "plants"); k > 0; k-- {
				gap := rapid.SampledFrom([]int{1, 2, 127, 128, 129, 255, 256, 1023, 1024, 1025, 1279, 1280, 1281, 2047, 2048, 4095, 4096, 4097, 8191, 8192}).Draw(t, "gap")
				if rapid.IntRange(0, 3).Draw(t, "anygap") == 0 {
					gap = uniformInt(t, 1, max(1, nb), "gap")
				}
				pos += gap
				if pos > nb {
					break
				}
				c.Plant = append(c.Plant, pos)
			}
			c.PlantWin = rapid.Bool().Draw(t, "plant_window")
		}
		if rapid.IntRange(0, 2).Draw(t, "restrict") == 0 {
			k := rapid.IntRange(1, 127).Draw(t, "alphabet")
			for i := 0; i < k; i++ {
				c.Alpha = append(c.Alpha, rapid.IntRange(0, 127).Draw(t, "pat"))
			}
		}
	}
	return c
}

func TestC04(t *testing.T) { runProp(t, "C04", genC04, checkC04) }

// TestC04Exhaustive: every one of the 2^m blocks for m in [VERIF_LO, VERIF_HI] as a one-block input.
// With N = 1 the chi-square is 1/pi_c - 1, so the returned P identifies the class of the block.
func TestC04Exhaustive(t *testing.T) {
	currentTest = t.Name()
	if replayIn != "" {
		replayCase(t, "C04", checkC04)
		return
	}
	lo, hi := envInt("VERIF_LO", 1), envInt("VERIF_HI", 10)
	shard, nsh := envInt("VERIF_PART", 0), envInt("VERIF_PARTS", 1)
	for m := lo; m <= hi; m++ {
		for v := 0; v < 1<<uint(m); v++ {
			if v%nsh != shard {
				continue
			}
			bits := make([]byte, m)
			for i := 0; i < m; i++ {
				bits[i] = '0' + byte(v>>uint(m-1-i)&1)
			}
			c := c04Case{Test: "lincomp", M: m, Blocks: []blockSpec{{Kind: "explicit", Bits: string(bits)}}}
			if _, err := judge("C04", c, checkC04, false); err != nil {
				t.Fatalf("C04: %v", err)
			}
		}
	}
	// Maurer on 10^6-bit shapes with very long distances (a source stuck for a long prefix, patterns that return after > 50000 blocks)
	if shard == 0 {
		for _, q := range []gen.Seq{{Family: "prefixconst", N: 1000000, A: 0, Seed: 31, Pos: []int{400000}}, {Family: "prefixconst", N: 1000000, A: 1, Seed: 32, Pos: []int{800000}},
			{Family: "prefixconst", N: 1000000, A: 0, Seed: 33, Pos: []int{999000}}, {Family: "sparse", N: 1000000, Pos: []int{7, 500000, 999999}}, {Family: "nearflat", N: 1000000, Seed: 34, A: 10}} {
			q := q
			c := c04Case{Test: "maurer", Seq: &q, Runner: true}
			if _, err := judge("C04", c, checkC04, false); err != nil {
				t.Fatalf("C04: %v", err)
			}
		}
	}
	// Maurer with one pattern planted at distances around 2^15, 2^16 and 2^17 blocks (10^6 bits), through all entry points
	if shard == 0 {
		for i, d := range []int{32767, 32768, 65535, 65536, 65537, 131072} {
			q := gen.Seq{Family: "uniform", N: 1000000, Seed: uint64(90 + i)}
			c := c04Case{Test: "maurer", Seq: &q, Runner: true, Plant: []int{17 * (i + 1), 1300 + i, 1300 + i + d}}
			if i%2 == 1 {
				c.Plant = []int{17 * (i + 1), 1 + i, 1 + i + d, 1 + i + 2*d} // first occurrence inside the initialisation segment
			}
			for _, win := range []bool{false, true} { // pattern absent everywhere else (P tiny) / only inside the window (P moderate)
				c.PlantWin = win
				if _, err := judge("C04", c, checkC04, false); err != nil {
					t.Fatalf("C04: %v", err)
				}
			}
		}
	}
	// rank and Maurer beyond 2^20 bits, with matrix / block counts that are not multiples of 2, 4 or 8
	if shard == 0 {
		bigRank := c04Case{Test: "rank", Tail: 5, Seed: 77, Runner: false}
		for k := 0; k < 1031; k++ {
			bigRank.Blocks = append(bigRank.Blocks, blockSpec{L: []int{32, 32, 32, 31, 32, 30, 32, 29, 32, 7}[k%10], Seed: uint64(5000 + k)})
		}
		q := gen.Seq{Family: "uniform", N: 2000003, Seed: 78}
		for _, c := range []c04Case{bigRank, {Test: "maurer", Seq: &q}} {
			if _, err := judge("C04", c, checkC04, false); err != nil {
				t.Fatalf("C04: %v", err)
			}
		}
	}
	// linear complexity on samples beyond 10^6 bits with block counts that are not multiples of 2, 4 or 8 (chunked / multi-worker implementations)
	bigs := []struct{ m, nb, tail int }{{500, 2003, 17}, {1000, 1005, 0}, {9, 120005, 3}, {500, 13, 0}, {5000, 201, 99}}
	for i, b := range bigs {
		if i%nsh != shard {
			continue
		}
		c := c04Case{Test: "lincomp", M: b.m, Tail: b.tail, Seed: uint64(40 + i)}
		for k := 0; k < b.nb; k++ {
			kind := "random"
			switch {
			case k%97 == 5 || k >= b.nb-3: // a few atypical blocks, in particular among the last ones
				kind = "lfsr"
			case k%211 == 7:
				kind = "zero"
			}
			c.Blocks = append(c.Blocks, blockSpec{Kind: kind, L: b.m/2 - 5 + k%11, Seed: uint64(1000*i + k)})
		}
		if _, err := judge("C04", c, checkC04, false); err != nil {
			t.Fatalf("C04: %v", err)
		}
	}
	// the hostile shapes at the documented block lengths
	for _, m := range []int{500, 1000, 5000} {
		for _, k := range []string{"lastone", "firstone", "zero"} {
			c := c04Case{Test: "lincomp", M: m, Blocks: []blockSpec{{Kind: k}, {Kind: "random", Seed: 9}}}
			if _, err := judge("C04", c, checkC04, false); err != nil {
				t.Fatalf("C04: %v", err)
			}
		}
	}
}
