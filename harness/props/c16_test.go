package props

import (
	"fmt"
	"math"
	"testing"

	"pgregory.net/rapid"

	"verif/harness/gen"
)

// C16: results are well-formed probabilities with consistent P, Q and Pass.

type c16Case struct {
	Test   int     `json:"test"`
	Param  int     `json:"param"`
	Runner bool    `json:"runner,omitempty"` // go through the registry runner (needs n % 8 == 0, default parameter)
	Seq    gen.Seq `json:"seq"`
}

func wellFormed(t testDef, v vals, what string) error {
	for i, x := range v {
		if (i >= 2) && t.Idx != 3 {
			continue
		}
		if math.IsNaN(x) || math.IsInf(x, 0) {
			return violation("nan:"+t.Key, "%s: value %d is %v", what, i, x)
		}
		if x < -1e-9 || x > 1+1e-9 {
			return violation("range:"+t.Key, "%s: value %d = %.17g outside [0,1]", what, i, x)
		}
	}
	p, q := v[0], v[1]
	if t.TwoSided {
		if d := math.Abs(p - 2*math.Min(q, 1-q)); d > 1e-9 {
			return violation("pq:"+t.Key, "%s: two-sided test with P=%.12g Q=%.12g: P != 2 min(Q,1-Q) (off by %.3g)", what, p, q, d)
		}
	} else {
		if d := math.Abs(p - q); d > 1e-9 {
			return violation("pq:"+t.Key, "%s: chi-square test with P=%.12g Q=%.12g: Q != P", what, p, q)
		}
		if t.Idx == 3 {
			if d := math.Abs(v[2] - v[3]); d > 1e-9 {
				return violation("pq:"+t.Key, "%s: P2=%.12g Q2=%.12g: Q2 != P2", what, v[2], v[3])
			}
		}
	}
	return nil
}

func checkC16(c c16Case) (Outcome, error) {
	t := tests[c.Test]
	bits := c.Seq.Expand()
	n := len(bits)
	what := fmt.Sprintf("%s param=%d n=%d family=%s", t.Key, c.Param, n, c.Seq.Family)
	out := Outcome{Classes: []string{"test:" + t.Key, "family:" + c.Seq.Family}}
	v := t.Bits(bits, c.Param)
	if err := wellFormed(t, v, what); err != nil {
		return out, err
	}
	sat := v[0] < 1e-12 || v[0] > 1-1e-12
	if sat {
		out.Classes = append(out.Classes, "saturated")
	}
	out.NonTrivial = sat || c.Seq.Family != "uniform"
	if c.Runner && n%8 == 0 && (c.Param == t.Default || len(t.Params) == 1) {
		out.Classes = append(out.Classes, "via-runner")
		r := t.Runner(gen.Pack(bits))
		rv := resultVals(r, t.Idx)
		if err := wellFormed(t, rv, what+" (registry runner)"); err != nil {
			return out, err
		}
		pm := r.P
		if t.Idx == 3 {
			pm = math.Min(r.P, r.P2)
		}
		if math.Abs(pm-0.01) >= 1e-12 && r.Pass != (pm >= 0.01) {
			return out, violation("pass:"+t.Key, "%s (registry runner): Pass=%v but P=%.12g P2=%.12g", what, r.Pass, r.P, r.P2)
		}
		if r.Name == "" {
			return out, violation("name:"+t.Key, "%s: registry result has an empty name", what)
		}
	}
	return out, nil
}

var extremeFamilies = []string{"constant", "constant", "alternating", "transition", "transition", "biased", "balanced", "sparse", "sparse", "longrun", "periodic", "markov", "uniform", "walk", "runs", "tone", "explicit", "debruijn", "debruijn", "nearflat", "nearflat", "prefixconst", "bytewords"}

func genC16(t *rapid.T) c16Case {
	c := c16Case{Test: rapid.IntRange(0, 14).Draw(t, "test"), Runner: rapid.Bool().Draw(t, "runner")}
	td := tests[c.Test]
	c.Param = rapid.SampledFrom(td.Params).Draw(t, "param")
	if c.Runner {
		c.Param = td.Default
	}
	minN := max(100, minBitsFor(td, c.Param))
	n := drawLen(t, minN, []int{1000, 6272, 10000, 8967 + 7})
	if c.Runner {
		n = (n + 7) / 8 * 8
	}
	if rapid.IntRange(0, 3).Draw(t, "pow2len") == 0 { // lengths that are multiples of 4096: whole periods of every de Bruijn cycle up to order 12
		n = (n + 4095) / 4096 * 4096
	}
	c.Seq = gen.DrawSeq(t, n, extremeFamilies)
	if c.Seq.Family == "biased" {
		c.Seq.F = rapid.SampledFrom([]float64{0.001, 0.01, 0.1, 0.3, 0.5, 0.7, 0.9, 0.99, 0.999}).Draw(t, "bias")
	}
	return c
}

func TestC16(t *testing.T) { runProp(t, "C16", genC16, checkC16) }

// TestC16Sweep: every test x every documented parameter x the extreme families at fixed sizes
// (minimum, 10^6; thorough VERIF_BIG=1: 10^7 for everything but the DFT, which stays <= 2^22 points).
func TestC16Sweep(t *testing.T) {
	var cases []c16Case
	part, parts := envInt("VERIF_PART", 0), envInt("VERIF_PARTS", 1)
	k := 0
	for _, td := range tests {
		for _, p := range td.Params {
			sizes := []int{max(100, minBitsFor(td, p)), 1000000}
			if td.Key != "lincomp" && td.Key != "dft" && td.Key != "rank" && td.Key != "maurer" { // the linear-time tests also on 4*10^6 bits in every run
				sizes = append(sizes, 4000003)
			}
			if envInt("VERIF_BIG", 0) == 1 {
				sizes = []int{10000000}
				if td.Key == "dft" {
					sizes = []int{4000000}
				}
				if td.Key == "lincomp" && p == 5000 {
					sizes = []int{2000000}
				}
			}
			for _, n := range sizes {
				n = (n + 7) / 8 * 8
				for _, q := range []gen.Seq{{Family: "constant", N: n, A: 0}, {Family: "constant", N: n, A: 1}, {Family: "alternating", N: n},
					{Family: "transition", N: n, A: 1, Pos: []int{n / 3}}, {Family: "biased", N: n, Seed: 5, F: 0.999}, {Family: "balanced", N: n, Seed: 6},
					{Family: "sparse", N: n, A: 0, Pos: []int{n - 1}}, {Family: "uniform", N: n, Seed: 7},
					{Family: "debruijn", N: (n + 255) / 256 * 256, A: 2}, {Family: "debruijn", N: (n + 255) / 256 * 256, A: 5, B: 3}, {Family: "debruijn", N: (n + 255) / 256 * 256, A: 8, Pos: []int{1}},
					{Family: "prefixconst", N: n, A: 0, Seed: 9, Pos: []int{n * 2 / 5}}, {Family: "prefixconst", N: n, A: 1, Seed: 10, Pos: []int{n * 4 / 5}}, {Family: "nearflat", N: n, Seed: 11, A: 40},
					{Family: "debruijn", N: (n + 4095) / 4096 * 4096, A: 10}, {Family: "debruijn", N: (n + 4095) / 4096 * 4096, A: 12, B: 77}, {Family: "debruijn", N: 22 * 1024 * ((n + 22527) / 22528), A: 10}} {
					if n >= 10000000 && (q.Family == "balanced" || q.Family == "biased" || q.Family == "sparse") {
						continue
					}
					if k%parts == part {
						cases = append(cases, c16Case{Test: td.Idx, Param: p, Runner: p == td.Default || len(td.Params) == 1, Seq: q})
					}
					k++
				}
			}
		}
	}
	enumerate(t, "C16", cases, checkC16)
}
