package props

import (
	"bytes"
	"encoding/json"
	"fmt"
	"os"
	"path/filepath"
	"strconv"
	"strings"
	"testing"
	"time"

	"pgregory.net/rapid"
)

// C20: the sample generator writes exactly the requested files where it was told to.

type c20Case struct {
	S       int    `json:"s"`
	N       int    `json:"n"`       // bits, multiple of 8
	OutKind string `json:"outkind"` // default | relative | nested | absolute | preexisting | dotdot
	OutName string `json:"outname,omitempty"`
	PrevS   int    `json:"prev_s,omitempty"` // an earlier run into the same directory (history): s
	PrevN   int    `json:"prev_n,omitempty"` // ... and n of that earlier run
	Cpus    string `json:"cpus,omitempty"`   // taskset mask: runtime.NumCPU() = number of writer goroutines
	Procs   int    `json:"gomaxprocs,omitempty"`
	FdLimit int    `json:"fd_limit,omitempty"` // run under this descriptor limit (1024 = the usual default soft limit)
}

func checkC20(c c20Case) (Outcome, error) {
	bin := os.Getenv("VERIF_BIN_RDGEN")
	cwd := newScratch("c20")
	defer os.RemoveAll(cwd)
	var arg, want string
	foreign := map[string]bool{}
	switch c.OutKind {
	case "default":
		want = filepath.Join(cwd, "target", "data")
	case "relative":
		arg = c.OutName
		want = filepath.Join(cwd, c.OutName)
	case "nested":
		arg = "./" + filepath.Join(c.OutName, "b", "c")
		want = filepath.Join(cwd, c.OutName, "b", "c")
	case "absolute":
		want = filepath.Join(cwd, "abs", c.OutName)
		arg = want
	case "dotdot":
		_ = os.MkdirAll(filepath.Join(cwd, "sub"), 0o755)
		arg = filepath.Join("sub", "..", c.OutName)
		want = filepath.Join(cwd, c.OutName)
	case "symlink": // the requested directory already exists as a symbolic link to a directory (e.g. target/data kept on another volume)
		want = filepath.Join(cwd, "real-"+c.OutName)
		arg = c.OutName
		_ = os.MkdirAll(want, 0o755)
		if err := os.Symlink(want, filepath.Join(cwd, c.OutName)); err != nil {
			return Outcome{Skip: "cannot create a symbolic link"}, nil
		}
	case "preexisting":
		want = filepath.Join(cwd, c.OutName)
		arg = c.OutName
		_ = os.MkdirAll(want, 0o755)
		for _, f := range []string{"keep.txt", "random-old.bin", "randomX.bin"} {
			_ = os.WriteFile(filepath.Join(want, f), []byte("foreign"), 0o644)
			foreign[f] = true
		}
	}
	args := []string{"-s", strconv.Itoa(c.S), "-n", strconv.Itoa(c.N)}
	if arg != "" {
		args = append(args, "-o", arg)
	}
	numcpu := 16
	switch c.Cpus {
	case "0":
		numcpu = 1
	case "0-2":
		numcpu = 3
	}
	out := Outcome{Classes: []string{"out:" + c.OutKind, "numcpu:" + itoa(numcpu)}, NonTrivial: c.OutKind != "default" && c.S > 1}
	if c.S > numcpu {
		out.Classes = append(out.Classes, "s>NumCPU")
	}
	what := fmt.Sprintf("rdgen %v (cwd scratch, NumCPU=%d)", args, numcpu)
	if c.PrevS > 0 {
		// history: an earlier run into the same directory with other s / n
		pargs := []string{"-s", strconv.Itoa(c.PrevS), "-n", strconv.Itoa(c.PrevN)}
		if arg != "" {
			pargs = append(pargs, "-o", arg)
		}
		if p0 := runTool(cwd, 5*time.Minute, c.Procs, c.Cpus, bin, pargs...); p0.exit != 0 || p0.stuck {
			return Outcome{Skip: "earlier run failed (judged by its own case)"}, nil
		}
		for i := c.S; i < c.PrevS; i++ {
			foreign[fmt.Sprintf("random%d.bin", i)] = true // left over from the earlier run: pre-existing files
		}
		out.Classes = append(out.Classes, "reused-directory")
		what = fmt.Sprintf("rdgen %v after an earlier rdgen %v into the same directory", args, pargs)
	}
	var pr procResult
	if c.FdLimit > 0 {
		out.Classes = append(out.Classes, fmt.Sprintf("fd-limit:%d", c.FdLimit))
		pr = runTool(cwd, 5*time.Minute, c.Procs, c.Cpus, "sh", append([]string{"-c", fmt.Sprintf(`ulimit -n %d && exec "$0" "$@"`, c.FdLimit), bin}, args...)...)
	} else {
		pr = runTool(cwd, 5*time.Minute, c.Procs, c.Cpus, bin, args...)
	}
	if pr.stuck {
		if pr.deadlock {
			return out, violation("no-termination", "%s does not terminate: every goroutine is blocked\n%s", what, clip(pr.stderr, 2000))
		}
		return Outcome{Skip: "INCONCLUSIVE rdgen still running at the budget"}, nil
	}
	if pr.exit != 0 {
		return out, violation("exit", "%s exited with status %d: %s", what, pr.exit, clip(tailPanic(pr.stderr), 1200))
	}
	// census of the whole scratch cwd: every regular file must be one of the expected ones (or a planted foreign file)
	expect := map[string]bool{}
	for i := 0; i < c.S; i++ {
		expect[filepath.Join(want, fmt.Sprintf("random%d.bin", i))] = true
	}
	var contents [][]byte
	var stray []string
	_ = filepath.Walk(cwd, func(p string, fi os.FileInfo, err error) error {
		if err != nil || fi.IsDir() || fi.Mode()&os.ModeSymlink != 0 {
			return nil
		}
		if expect[p] {
			return nil
		}
		if filepath.Dir(p) == want && foreign[filepath.Base(p)] {
			return nil
		}
		stray = append(stray, p[len(cwd):])
		return nil
	})
	for i := 0; i < c.S; i++ {
		p := filepath.Join(want, fmt.Sprintf("random%d.bin", i))
		b, err := os.ReadFile(p)
		if err != nil {
			return out, violation("missing", "%s: %s was not created in the requested directory (%v); unexpected files: %v", what, p[len(cwd):], err, stray)
		}
		if len(b) != c.N/8 {
			return out, violation("size", "%s: %s has %d bytes, want %d", what, p[len(cwd):], len(b), c.N/8)
		}
		contents = append(contents, b)
	}
	if len(stray) > 0 {
		return out, violation("stray", "%s created unexpected files: %v", what, stray)
	}
	for f := range foreign {
		if strings.HasPrefix(f, "random") && c.PrevS > 0 && f != "random-old.bin" && f != "randomX.bin" {
			continue // left-overs of the earlier run
		}
		if b, err := os.ReadFile(filepath.Join(want, f)); err != nil || string(b) != "foreign" {
			return out, violation("foreign", "%s damaged the pre-existing file %s", what, f)
		}
	}
	if c.N >= 128 {
		for i := range contents {
			for j := i + 1; j < len(contents); j++ {
				if bytes.Equal(contents[i], contents[j]) {
					return out, violation("duplicate", "%s: random%d.bin and random%d.bin have identical contents", what, i, j)
				}
			}
			allZero := true
			for _, x := range contents[i] {
				if x != 0 {
					allZero = false
					break
				}
			}
			if allZero {
				return out, violation("zero", "%s: random%d.bin is all zero (never filled)", what, i)
			}
		}
	}
	if (c.N == 20000 || c.N == 1000000 || c.N == 100000000) && c.PrevS == 0 {
		out.Classes = append(out.Classes, "detector-count")
		b, err := shimCall("VERIF_SHIM=count", "VERIF_SHIM_DIR="+want)
		if err != nil {
			return Outcome{Skip: "INCONCLUSIVE shim: " + err.Error()}, nil
		}
		var r struct{ Samples, Bits int64 }
		if err := json.Unmarshal(b, &r); err != nil {
			return Outcome{Skip: "INCONCLUSIVE shim output"}, nil
		}
		wantS := int64(c.S)
		for f := range foreign {
			if filepath.Ext(f) == ".bin" {
				wantS++
			}
		}
		if r.Samples != wantS || r.Bits != int64(c.N) {
			return out, violation("detector", "%s: the batch detector sees %d samples of %d bits in the output directory, want %d of %d", what, r.Samples, r.Bits, wantS, c.N)
		}
	}
	return out, nil
}

func genC20(t *rapid.T) c20Case {
	c := c20Case{S: rapid.IntRange(1, 40).Draw(t, "s")}
	if thorough() && rapid.IntRange(0, 5).Draw(t, "many") == 0 {
		c.S = rapid.IntRange(41, 300).Draw(t, "s")
	}
	switch rapid.IntRange(0, 4).Draw(t, "nclass") {
	case 0:
		c.N = 20000
	case 1:
		c.N = 1000000
		if c.S > 60 {
			c.S = 60
		}
	case 2: // sizes that are exact multiples of common block sizes (4 KiB, 64 KiB, 1 MiB)
		c.N = 8 * rapid.SampledFrom([]int{512, 4096, 8192, 65536, 65536 * 2, 65536 * 3, 1 << 20, 65536 + 1, 65536 - 1}).Draw(t, "blocky")
		if c.S > 12 {
			c.S = 12
		}
	default:
		c.N = 8 * rapid.IntRange(1, 10000).Draw(t, "nbytes")
	}
	c.OutKind = rapid.SampledFrom([]string{"default", "relative", "nested", "absolute", "preexisting", "dotdot", "symlink"}).Draw(t, "outkind")
	c.OutName = rapid.StringMatching(`[a-zA-Z0-9_]{1,8}`).Draw(t, "outname")
	if rapid.IntRange(0, 2).Draw(t, "odd_name") == 0 {
		// directory names are data, not syntax: spaces, percent signs, dots, dashes, non-ASCII
		c.OutName = rapid.StringMatching(`[a-zA-Z0-9_]{1,3}[ %.\-+=,@#~é中]{1,2}[a-zA-Z0-9%]{0,4}`).Draw(t, "outname")
	}
	if rapid.IntRange(0, 3).Draw(t, "history") == 0 {
		c.PrevS = rapid.IntRange(1, 12).Draw(t, "prev_s")
		c.PrevN = 8 * rapid.IntRange(1, 20000).Draw(t, "prev_nbytes")
		if rapid.Bool().Draw(t, "prev_std") {
			c.PrevN = rapid.SampledFrom([]int{20000, 1000000}).Draw(t, "prev_n")
		}
	}
	c.Cpus = rapid.SampledFrom([]string{"", "0", "0-2"}).Draw(t, "cpus")
	c.Procs = rapid.SampledFrom([]int{0, 1, 2}).Draw(t, "gomaxprocs")
	return c
}

func TestC20(t *testing.T) { runProp(t, "C20", genC20, checkC20) }

// TestC20Big: one 10^8-bit sample (12.5 MB) accepted by the detector's counting pass (thorough only).
func TestC20Big(t *testing.T) {
	enumerate(t, "C20", []c20Case{{S: 2, N: 100000000, OutKind: "relative", OutName: "big"}, {S: 1, N: 100000000, OutKind: "default"}}, checkC20)
}

// TestC20Many: more files than the usual descriptor limit (the README's own example asks for 1000 samples); deterministic.
func TestC20Many(t *testing.T) {
	k := envInt("VERIF_SCALE_S", 1)
	enumerate(t, "C20", []c20Case{{S: 1200 * k, N: 20000, OutKind: "relative", OutName: "many", FdLimit: 1024}, {S: 3000 * k, N: 8 * 40, OutKind: "default", FdLimit: 1024, Cpus: "0-2"},
		{S: 1000, N: 8, OutKind: "nested", OutName: "m", FdLimit: 1024, Procs: 1},
		// samples larger than 64 MiB (75 MB and 125 MB files)
		{S: 1, N: 600000000, OutKind: "relative", OutName: "huge"}, {S: 2, N: 1000000000, OutKind: "default", Cpus: "0-2"}}, checkC20)
}
