package props

import (
	"fmt"
	"strings"
	"testing"

	rn "github.com/Trisia/randomness"
	"pgregory.net/rapid"

	"verif/harness/gen"
	"verif/harness/ref"
)

// C03: binary derivative, autocorrelation, cumulative sums = the standard's definition.

func checkC03(c statCase) (Outcome, error) {
	bits := windowBits(c.Seq.Expand(), uint64(c.Seq.N)*2654435761+c.Seq.Seed+uint64(len(c.Test)))
	n := len(bits)
	what := fmt.Sprintf("%s param=%d forward=%v n=%d family=%s", c.Test, c.M, c.Flag, n, c.Seq.Family)
	out := Outcome{Classes: seqClasses(statCase{Test: c.Test, Seq: c.Seq}, n)}
	var gp, gq, wp, wq float64
	byteEntry := strings.HasSuffix(c.Test, "Bytes") // the byte entry point on the packed sequence (n is a multiple of 8 then)
	if byteEntry {
		what += " (byte entry point)"
		out.Classes = append(out.Classes, "byte-entry-point")
	}
	switch strings.TrimSuffix(c.Test, "Bytes") {
	case "binderiv":
		if byteEntry {
			gp, gq = rn.BinaryDerivativeTestBytes(windowBytes(gen.Pack(bits), uint64(n)+c.Seq.Seed), c.M)
		} else {
			gp, gq = rn.BinaryDerivativeProto(bits, c.M)
		}
		wp, wq = ref.BinDeriv(bits, c.M)
		out.Classes = append(out.Classes, fmt.Sprintf("k=%d", c.M))
	case "autocorr":
		if byteEntry {
			gp, gq = rn.AutocorrelationTestBytes(windowBytes(gen.Pack(bits), uint64(n)+c.Seq.Seed), c.M)
		} else {
			gp, gq = rn.AutocorrelationProto(bits, c.M)
		}
		wp, wq = ref.Autocorr(bits, c.M)
		out.Classes = append(out.Classes, fmt.Sprintf("d=%d", c.M))
	case "cusum":
		if byteEntry {
			gp, gq = rn.CumulativeTestBytes(windowBytes(gen.Pack(bits), uint64(n)+c.Seq.Seed), c.Flag)
		} else {
			gp, gq = rn.CumulativeTest(bits, c.Flag)
		}
		wp = ref.Cusum(bits, c.Flag)
		wq = wp
		// decile of log(Z)/log(n)
		z, s := 0, 0
		for i := 0; i < n; i++ {
			b := bits[i]
			if !c.Flag {
				b = bits[n-1-i]
			}
			if b {
				s++
			} else {
				s--
			}
			if s > z {
				z = s
			}
			if -s > z {
				z = -s
			}
		}
		ratio := n / z
		switch {
		case ratio <= 1:
			out.Classes = append(out.Classes, "cusum/n/Z=1")
		case ratio <= 4:
			out.Classes = append(out.Classes, "cusum/n/Z<=4")
		case ratio <= 40:
			out.Classes = append(out.Classes, "cusum/n/Z<=40")
		default:
			out.Classes = append(out.Classes, "cusum/n/Z>40")
		}
		if c.Flag {
			out.Classes = append(out.Classes, "cusum/forward")
		} else {
			out.Classes = append(out.Classes, "cusum/backward")
		}
	default:
		return out, fmt.Errorf("unknown test %q", c.Test)
	}
	out.NonTrivial = nontrivialP(wp)
	return out, cmpPQ(strings.TrimSuffix(c.Test, "Bytes"), what, gp, gq, wp, wq, "C03")
}

func genC03(t *rapid.T) statCase {
	test := rapid.SampledFrom([]string{"binderiv", "autocorr", "cusum"}).Draw(t, "test")
	c := statCase{Test: test}
	n := drawLen(t, 100, nil)
	fams := gen.Families
	switch test {
	case "binderiv":
		c.M = rapid.SampledFrom([]int{3, 7, 15}).Draw(t, "k")
	case "autocorr":
		c.M = rapid.SampledFrom([]int{1, 2, 8, 16, 32}).Draw(t, "d")
	case "cusum":
		c.Flag = rapid.Bool().Draw(t, "forward")
		fams = append([]string{"walk", "walk", "walk", "transition"}, gen.Families...)
	}
	if rapid.IntRange(0, 3).Draw(t, "byte_entry") == 0 {
		n = (n + 7) / 8 * 8
		c.Test += "Bytes"
	}
	c.Seq = gen.DrawSeq(t, n, fams)
	if test == "cusum" && n >= 400 && rapid.IntRange(0, 5).Draw(t, "wordrecord") == 0 {
		// the record of the walk is set by exactly one machine word of ones after a deficit of about one word (implementations
		// that skip whole words which "cannot" set a record)
		w := rapid.SampledFrom([]int{8, 16, 32, 64, 64}).Draw(t, "word")
		rev := 0
		if !c.Flag {
			rev = 1
		}
		a := rapid.IntRange(w, 2*w+40).Draw(t, "record")
		nn := uniformInt(t, max(400, a*a/6), max(400, a*a), "n_for_record") // the record is 1 .. 2.5 standard deviations of the walk: P is neither 0 nor 1
		if strings.HasSuffix(c.Test, "Bytes") {
			nn = (nn + 7) / 8 * 8
		}
		c.Seq = gen.Seq{Family: "wordrecord", N: nn, A: a, B: w,
			Pos: []int{w + rapid.IntRange(-3, 1).Draw(t, "ddeficit"), rapid.IntRange(0, 2*w).Draw(t, "pad"), rev}}
	}
	if test == "autocorr" && rapid.IntRange(0, 3).Draw(t, "tile") == 0 {
		// period d or 2d tiles: the disagreement count is 0, n-d, or in between
		p := c.M * rapid.IntRange(1, 2).Draw(t, "mult")
		c.Seq = gen.Seq{Family: "periodic", N: n, Bits: gen.BitString(rapid.SliceOfN(rapid.Bool(), p, p).Draw(t, "tile"))}
	}
	if test == "binderiv" && rapid.IntRange(0, 4).Draw(t, "pow2") == 0 {
		// period 2^j tiles: the k-th derivative of a sequence with period 8/16 collapses to a constant
		p := rapid.SampledFrom([]int{2, 4, 8, 16}).Draw(t, "period")
		c.Seq = gen.Seq{Family: "periodic", N: n, Bits: gen.BitString(rapid.SliceOfN(rapid.Bool(), p, p).Draw(t, "tile"))}
	}
	return c
}

func TestC03(t *testing.T) { runProp(t, "C03", genC03, checkC03) }

// TestC03Sweep: every parameter on the minimum length and a long sequence; cusum excursion from 1 to n.
func TestC03Sweep(t *testing.T) {
	var cases []statCase
	for _, n := range []int{100, 101, 131, 1000, 20000, 1000000} {
		for _, k := range []int{3, 7, 15} {
			cases = append(cases, statCase{Test: "binderiv", M: k, Seq: gen.Seq{Family: "uniform", N: n, Seed: uint64(n + k)}})
		}
		for _, d := range []int{1, 2, 8, 16, 32} {
			cases = append(cases, statCase{Test: "autocorr", M: d, Seq: gen.Seq{Family: "uniform", N: n, Seed: uint64(n + d)}})
		}
		for _, fwd := range []bool{true, false} {
			cases = append(cases, statCase{Test: "cusum", Flag: fwd, Seq: gen.Seq{Family: "uniform", N: n, Seed: uint64(n)}})
			for _, z := range []int{1, 2, 3, 5, 10, n / 40, n / 4, n / 3, n / 2, n - 1, n} {
				if z >= 1 {
					cases = append(cases, statCase{Test: "cusum", Flag: fwd, Seq: gen.Seq{Family: "walk", N: n, Seed: uint64(z), A: z}})
				}
			}
		}
	}
	// very long walks that stay within a narrow band (n/Z in the millions: the series has millions of terms)
	for _, n := range []int{4000000, 13000001} {
		for _, z := range []int{1, 2, 3} {
			cases = append(cases, statCase{Test: "cusum", Flag: z%2 == 1, Seq: gen.Seq{Family: "walk", N: n, Seed: uint64(z), A: z}})
		}
	}
	// lengths just above 2^20 and a few millions of bits for every parameter (implementations that work in windows / chunks)
	for _, n := range []int{1048577, 1048585, 3000001, 4194304, 10000019} {
		for _, k := range []int{3, 7, 15} {
			cases = append(cases, statCase{Test: "binderiv", M: k, Seq: gen.Seq{Family: "uniform", N: n, Seed: uint64(n + k)}})
		}
		for _, d := range []int{1, 2, 8, 16, 32} {
			cases = append(cases, statCase{Test: "autocorr", M: d, Seq: gen.Seq{Family: "uniform", N: n, Seed: uint64(n + d)}})
		}
	}
	// cumulative sums, both directions, beyond 2^22 bits (uniform and biased content: the maximum is reached in different places)
	for i, n := range []int{4194305, 10000019, 12582915} {
		for _, fwd := range []bool{true, false} {
			cases = append(cases, statCase{Test: "cusum", Flag: fwd, Seq: gen.Seq{Family: "uniform", N: n, Seed: uint64(700 + i)}},
				statCase{Test: "cusum", Flag: fwd, Seq: gen.Seq{Family: "prefixconst", N: n, A: 1, Seed: uint64(710 + i), Pos: []int{3000}}})
		}
	}
	// byte entry points on samples of decreasing length (a long sample first, then ever shorter ones in the same process)
	for _, n := range []int{1000000, 20000, 1000, 104, 20000, 128} {
		cases = append(cases, statCase{Test: "binderivBytes", M: 7, Seq: gen.Seq{Family: "uniform", N: n, Seed: uint64(n + 1)}},
			statCase{Test: "autocorrBytes", M: 16, Seq: gen.Seq{Family: "uniform", N: n, Seed: uint64(n + 2)}},
			statCase{Test: "cusumBytes", Flag: true, Seq: gen.Seq{Family: "uniform", N: n, Seed: uint64(n + 3)}},
			statCase{Test: "cusumBytes", Flag: false, Seq: gen.Seq{Family: "biased", N: n, Seed: uint64(n + 4), F: 0.49}})
	}
	enumerate(t, "C03", cases, checkC03)
}
