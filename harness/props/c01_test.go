package props

import (
	"fmt"
	"math"
	"strings"
	"testing"

	rn "github.com/Trisia/randomness"
	"pgregory.net/rapid"

	"verif/harness/gen"
	"verif/harness/ref"
)

// C01: monobit, block frequency, poker, overlapping, approximate entropy = the standard's definition.

type statCase struct {
	Test string  `json:"test"`
	M    int     `json:"m,omitempty"`
	Flag bool    `json:"flag,omitempty"`
	Seq  gen.Seq `json:"seq"`
}

// drawLen: mixture that always includes the minimum, minimum+1, non-multiples of 8 and regime boundaries.
func drawLen(t *rapid.T, minN int, boundaries []int) int {
	maxSmall := 5000
	k := rapid.IntRange(0, 99).Draw(t, "lenclass")
	switch {
	case k < 8:
		return minN + rapid.IntRange(0, 3).Draw(t, "dmin")
	case k < 18 && len(boundaries) > 0:
		b := rapid.SampledFrom(boundaries).Draw(t, "boundary")
		n := b + rapid.IntRange(-2, 2).Draw(t, "dbound")
		if n < minN {
			n = minN
		}
		return n
	case k < 24: // a multiple of a power of two (chunk, word, page and buffer sizes of an implementation) give or take a few bits
		n := rapid.IntRange(1, 8).Draw(t, "chunks")<<uint(rapid.IntRange(6, 17).Draw(t, "chunk_log2")) + rapid.IntRange(-3, 3).Draw(t, "dchunk")
		if n > 1100000 {
			n = 1<<20 + rapid.IntRange(-3, 3).Draw(t, "dchunk2")
		}
		return max(n, minN)
	case k < 85:
		return rapid.IntRange(minN, max(minN, maxSmall)).Draw(t, "n")
	case k < 99:
		return uniformInt(t, max(minN, maxSmall), 100000, "n")
	default:
		if thorough() {
			return uniformInt(t, 100000, 1000000, "n")
		}
		return uniformInt(t, 100000, 300000, "n")
	}
}

// uniformInt draws an integer uniformly from [lo, hi]: rapid's own integer generators favour small magnitudes, which
// starves the large-n classes; the draw is a rapid seed pushed through the harness PRNG (still a pure function of rapid's stream).
func uniformInt(t *rapid.T, lo, hi int, label string) int {
	if hi <= lo {
		return lo
	}
	return lo + gen.NewRng(rapid.Uint64().Draw(t, label)).Intn(hi-lo+1)
}

func cmpPQ(key, what string, gotP, gotQ, wantP, wantQ float64, recName string) error {
	d := math.Max(math.Abs(gotP-wantP), math.Abs(gotQ-wantQ))
	if math.IsNaN(gotP) || math.IsNaN(gotQ) {
		d = math.Inf(1)
	}
	rec(recName).Max("worst_deviation", d)
	if !(d <= 1e-8) {
		return violation(key, "%s: library P=%.12g Q=%.12g, reference P=%.12g Q=%.12g (|diff| %.3g > 1e-8)", what, gotP, gotQ, wantP, wantQ, d)
	}
	return nil
}

func nontrivialP(p float64) bool { return p > 1e-12 && p < 1-1e-12 }

func seqClasses(c statCase, n int) []string {
	cls := []string{c.Test, "family:" + c.Seq.Family}
	if n%8 != 0 {
		cls = append(cls, "n%8!=0")
	}
	if c.M > 1 && n%c.M != 0 {
		cls = append(cls, "n%m!=0")
	}
	switch {
	case n <= 5000:
		cls = append(cls, "n<=5000")
	case n <= 100000:
		cls = append(cls, "n<=1e5")
	default:
		cls = append(cls, "n>1e5")
	}
	return cls
}

func checkC01(c statCase) (Outcome, error) {
	bits := windowBits(c.Seq.Expand(), uint64(c.Seq.N)*2654435761+c.Seq.Seed+uint64(len(c.Test)))
	n := len(bits)
	what := fmt.Sprintf("%s m=%d n=%d family=%s", c.Test, c.M, n, c.Seq.Family)
	out := Outcome{Classes: seqClasses(c, n)}
	var gp, gq, wp, wq float64
	switch c.Test {
	case "monobit":
		gp, gq = rn.MonoBitFrequencyTest(bits)
		wp, wq = ref.Monobit(bits)
	case "monobitBytes":
		gp, gq = rn.MonoBitFrequencyTestBytes(windowBytes(gen.Pack(bits), uint64(n)+c.Seq.Seed))
		wp, wq = ref.Monobit(bits)
	case "blockAuto":
		gp, gq = rn.FrequencyWithinBlockTest(bits)
		wp = ref.BlockFreq(bits, ref.AutoM(n))
		wq = wp
		out.Classes = append(out.Classes, fmt.Sprintf("autoM=%d", ref.AutoM(n)))
	case "block":
		gp, gq = rn.FrequencyWithinBlockProto(bits, c.M)
		wp = ref.BlockFreq(bits, c.M)
		wq = wp
	case "blockBytes":
		gp, gq = rn.FrequencyWithinBlockTestBytes(windowBytes(gen.Pack(bits), uint64(n)+c.Seq.Seed), c.M)
		wp = ref.BlockFreq(bits, c.M)
		wq = wp
	case "poker":
		gp, gq = rn.PokerProto(bits, c.M)
		wp = ref.Poker(bits, c.M)
		wq = wp
	case "pokerBytes":
		gp, gq = rn.PokerTestBytes(windowBytes(gen.Pack(bits), uint64(n)+c.Seq.Seed), c.M)
		wp = ref.Poker(bits, c.M)
		wq = wp
	case "overlap":
		p1, p2, q1, q2 := rn.OverlappingTemplateMatchingProto(bits, c.M)
		w1, w2 := ref.Overlap(bits, c.M)
		out.NonTrivial = nontrivialP(w1) || nontrivialP(w2)
		if err := cmpPQ("overlap", what+" (P1,Q1)", p1, q1, w1, w1, "C01"); err != nil {
			return out, err
		}
		return out, cmpPQ("overlap", what+" (P2,Q2)", p2, q2, w2, w2, "C01")
	case "overlapBytes":
		p1, p2, q1, q2 := rn.OverlappingTemplateMatchingTestBytes(windowBytes(gen.Pack(bits), uint64(n)+c.Seq.Seed), c.M)
		w1, w2 := ref.Overlap(bits, c.M)
		out.NonTrivial = nontrivialP(w1) || nontrivialP(w2)
		if err := cmpPQ("overlap", what+" (P1,Q1)", p1, q1, w1, w1, "C01"); err != nil {
			return out, err
		}
		return out, cmpPQ("overlap", what+" (P2,Q2)", p2, q2, w2, w2, "C01")
	case "apenBytes":
		gp, gq = rn.ApproximateEntropyTestBytes(windowBytes(gen.Pack(bits), uint64(n)+c.Seq.Seed), c.M)
		wp = ref.ApEn(bits, c.M)
		wq = wp
	case "apen":
		gp, gq = rn.ApproximateEntropyProto(bits, c.M)
		wp = ref.ApEn(bits, c.M)
		wq = wp
	default:
		return out, fmt.Errorf("unknown test %q", c.Test)
	}
	out.NonTrivial = nontrivialP(wp)
	return out, cmpPQ(c.Test, what, gp, gq, wp, wq, "C01")
}

var c01Boundaries = []int{1000, 10000, 100000}

func genC01(t *rapid.T) statCase {
	test := rapid.SampledFrom([]string{"monobit", "monobitBytes", "blockAuto", "block", "blockBytes", "poker", "pokerBytes", "overlap", "apen", "overlap", "apen", "overlapBytes", "apenBytes"}).Draw(t, "test")
	c := statCase{Test: test}
	bytesEntry := strings.HasSuffix(test, "Bytes")
	minN := 100
	if test == "monobitBytes" || test == "blockBytes" || test == "pokerBytes" {
		minN = 16
	}
	n := drawLen(t, minN, c01Boundaries)
	if bytesEntry {
		n = (n + 7) / 8 * 8
	}
	switch test {
	case "block", "blockBytes":
		switch rapid.IntRange(0, 5).Draw(t, "mclass") {
		case 0:
			c.M = rapid.IntRange(2, 20).Draw(t, "m")
		case 1:
			c.M = rapid.IntRange(max(2, n-5), n).Draw(t, "m") // near n and n itself: a single block
		case 2:
			c.M = rapid.IntRange(max(2, n/2-2), n/2+1).Draw(t, "m")
		case 3:
			c.M = rapid.SampledFrom([]int{10, 100, 1000, 10000, 128, 8}).Draw(t, "m")
		case 4: // around machine word sizes
			c.M = rapid.SampledFrom([]int{8, 16, 32, 64, 128}).Draw(t, "word") + rapid.IntRange(-7, 8).Draw(t, "dword")
		default:
			c.M = rapid.IntRange(2, n).Draw(t, "m")
		}
		if c.M > n {
			c.M = n
		}
	case "poker", "pokerBytes":
		c.M = rapid.SampledFrom([]int{2, 4, 8}).Draw(t, "m")
	case "overlap", "overlapBytes":
		c.M = rapid.SampledFrom([]int{2, 3, 5, 7}).Draw(t, "m")
	case "apen", "apenBytes":
		c.M = rapid.SampledFrom([]int{2, 5, 7}).Draw(t, "m")
	}
	c.Seq = gen.DrawSeq(t, n, nil)
	// exactly equidistributed inputs: whole periods of a de Bruijn cycle whose order exceeds the pattern length. The true
	// statistic is exactly 0 there (P = 1), so the computed one is pure rounding noise of either sign.
	if (strings.HasPrefix(test, "apen") || strings.HasPrefix(test, "overlap") || strings.HasPrefix(test, "poker")) && rapid.IntRange(0, 7).Draw(t, "equidistributed") == 0 {
		order := rapid.IntRange(c.M+1, 13).Draw(t, "order")
		periods := rapid.IntRange(1, 8).Draw(t, "periods")
		for periods<<uint(order) < 100 {
			periods++
		}
		c.Seq = gen.Seq{Family: "debruijn", N: periods << uint(order), A: order, B: rapid.IntRange(0, 1<<uint(order)-1).Draw(t, "rotation"), Pos: []int{rapid.IntRange(0, 1).Draw(t, "complement")}}
	}
	return c
}

func TestC01(t *testing.T) { runProp(t, "C01", genC01, checkC01) }

// TestC01Sweep: automatic block-length regimes at their boundaries (deterministic).
func TestC01Sweep(t *testing.T) {
	ns := []int{100, 999, 1000, 1001, 9999, 10000, 10001, 999999, 1000000, 1000001}
	if thorough() && mode == "huge" {
		ns = []int{99999999, 100000000}
	}
	var cases []statCase
	for i, n := range ns {
		cases = append(cases, statCase{Test: "blockAuto", Seq: gen.Seq{Family: "uniform", N: n, Seed: uint64(1000 + i)}})
		if n <= 1000001 {
			cases = append(cases, statCase{Test: "blockAuto", Seq: gen.Seq{Family: "biased", N: n, Seed: uint64(2000 + i), F: 0.48}})
		}
	}
	if mode != "huge" {
		// block frequency with very many blocks (shapes a = N/2 up to 250000: the incomplete gamma needs thousands of terms)
		for i, n := range []int{100000, 1000000} {
			for _, m := range []int{2, 3, 4, 8, 10, 16, 25} {
				cases = append(cases, statCase{Test: "block", M: m, Seq: gen.Seq{Family: "uniform", N: n, Seed: uint64(50 + i*10 + m)}},
					statCase{Test: "block", M: m, Seq: gen.Seq{Family: "biased", N: n, Seed: uint64(70 + i*10 + m), F: 0.5005}})
			}
		}
		// byte fast paths with large pattern counts (constant / heavily biased / long inputs)
		for _, q := range []gen.Seq{{Family: "constant", N: 1000000, A: 1}, {Family: "biased", N: 1000000, Seed: 3, F: 0.9}, {Family: "biased", N: 1000000, Seed: 4, F: 0.05},
			{Family: "periodic", N: 1000000, Bits: "00010001"}, {Family: "periodic", N: 1000000, Bits: "01"}, {Family: "prefixconst", N: 1000000, A: 0, Seed: 8, Pos: []int{400000}}, {Family: "uniform", N: 4800000, Seed: 5}} {
			for _, m := range []int{2, 4, 8} {
				cases = append(cases, statCase{Test: "pokerBytes", M: m, Seq: q})
			}
			cases = append(cases, statCase{Test: "monobitBytes", Seq: q})
		}
	}
	if mode != "huge" {
		// lengths just above 2^20 and a few millions of bits, not multiples of 2, 4 or 8, for every test and parameter
		// (implementations that split long inputs into chunks or hand them to several workers)
		for i, n := range []int{1048577, 1200003, 2000001, 10000019} {
			u := gen.Seq{Family: "uniform", N: n, Seed: uint64(300 + i)}
			cases = append(cases, statCase{Test: "monobit", Seq: u}, statCase{Test: "blockAuto", Seq: u}, statCase{Test: "block", M: 129, Seq: u})
			for _, m := range []int{2, 4, 8} {
				cases = append(cases, statCase{Test: "poker", M: m, Seq: u})
			}
			for _, m := range []int{2, 3, 5, 7} {
				cases = append(cases, statCase{Test: "overlap", M: m, Seq: u})
			}
			for _, m := range []int{2, 5, 7} {
				cases = append(cases, statCase{Test: "apen", M: m, Seq: u})
			}
		}
	}
	enumerate(t, "C01", cases, checkC01)
}
