package props

import (
	"bufio"
	"fmt"
	"math"
	"os"
	"path/filepath"
	"strings"
	"testing"

	"verif/harness/gen"
	"verif/harness/ref"
)

// TestOracleSelf validates the oracles against data that does not come from
// the code under test: an mpmath table for Igamc, the standard's annex known
// answers for the fifteen statistics, documented thresholds, naive DFT vs
// recursive FFT.  The driver maps a failure here to exit 2 (harness problem).
func TestOracleSelf(t *testing.T) {
	gold := envOr("VERIF_GOLDEN", "/verif/golden")
	f, err := os.Open(filepath.Join(gold, "igamc_mpmath.tsv"))
	if err != nil {
		t.Fatal(err)
	}
	defer f.Close()
	sc := bufio.NewScanner(f)
	n := 0
	for sc.Scan() {
		var a, x, q float64
		fs := strings.Split(sc.Text(), "\t")
		fmt.Sscan(fs[0], &a)
		fmt.Sscan(fs[1], &x)
		fmt.Sscan(fs[2], &q)
		got := ref.Igamc(a, x)
		if math.Abs(got-q) > 1e-14+1e-13*q {
			t.Errorf("ref.Igamc(%v,%v) = %.17g, mpmath %.17g", a, x, got, q)
		}
		n++
	}
	if n != 600 {
		t.Fatalf("golden table has %d rows", n)
	}
	b128 := gen.Unpack([]byte{0xcc, 0x15, 0x6c, 0x4c, 0xe0, 0x02, 0x4d, 0x51, 0x13, 0xd6, 0x80, 0xd7, 0xcc, 0xe6, 0xd8, 0xb2})
	b100 := gen.Unpack([]byte{0xc9, 0xf, 0xda, 0xa2, 0x21, 0x68, 0xc2, 0x34, 0xc4, 0xc6, 0x62, 0x8b, 0x80})[:100]
	eb, err := os.ReadFile(filepath.Join(gold, "e_bits.bin"))
	if err != nil {
		t.Fatal(err)
	}
	e := gen.Unpack(eb)
	chk := func(name string, got float64, want string) {
		if s := fmt.Sprintf("%.6f", got); s != want {
			t.Errorf("reference %s = %s, annex value %s", name, s, want)
		}
	}
	p, q := ref.Monobit(b128)
	chk("monobit P", p, "0.215925")
	chk("monobit Q", q, "0.892038")
	chk("block frequency", ref.BlockFreq(b100, ref.AutoM(100)), "0.706438")
	chk("poker m=4", ref.Poker(b128, 4), "0.213734")
	chk("poker m=8", ref.Poker(b128, 8), "0.221829")
	p1, p2 := ref.Overlap(b128, 2)
	chk("overlapping P1", p1, "0.436868")
	chk("overlapping P2", p2, "0.723674")
	p, q = ref.Runs(b128)
	chk("runs P", p, "0.620729")
	chk("runs Q", q, "0.310364")
	chk("runs distribution", ref.RunsDist(b128), "0.970152")
	chk("longest run ones", ref.LongestRun(b128, true), "0.180598")
	chk("longest run zeros", ref.LongestRun(b128, false), "0.839299")
	p, q = ref.BinDeriv(b128, 3)
	chk("binary derivative P", p, "0.039669")
	chk("binary derivative Q", q, "0.980166")
	p, q = ref.Autocorr(b128, 1)
	chk("autocorrelation P", p, "0.790080")
	chk("autocorrelation Q", q, "0.395040")
	chk("cusum forward", ref.Cusum(b100, true), "0.219194")
	chk("cusum backward", ref.Cusum(b100, false), "0.114866")
	chk("approximate entropy", ref.ApEn(b100, 2), "0.235301")
	lo, hi, _, amb := ref.DFTTest(b100)
	if amb != 0 || lo != hi {
		t.Errorf("DFT reference ambiguous on the annex sample")
	}
	chk("DFT P", lo[0], "0.654721")
	chk("DFT Q", lo[1], "0.327360")
	chk("linear complexity m=1000", ref.LinComp(e, 1000), "0.844721")
	chk("rank", ref.Rank(e), "0.307543")
	p, q = ref.Maurer(e)
	chk("maurer P", p, "0.282568")
	chk("maurer Q", q, "0.141284")

	for s, want := range map[int64]int64{50: 48, 20: 19, 1000: 981} {
		if got := ref.Threshold(s); got != want {
			t.Errorf("ref.Threshold(%d) = %d, documented %d", s, got, want)
		}
	}
	// longest-run tables: exact DP rounded = printed tables of the standard
	want := map[int][]float64{8: {0.2148, 0.3672, 0.2305, 0.1875}, 128: {0.1174, 0.2430, 0.2494, 0.1752, 0.1027, 0.1124},
		10000: {0.086632, 0.208201, 0.248419, 0.193913, 0.121458, 0.068011, 0.073366}}
	for m, w := range want {
		var got []float64
		switch m {
		case 8:
			got = ref.LongestRunTable(8, 1, 3, 4)
		case 128:
			got = ref.LongestRunTable(128, 4, 5, 4)
		default:
			got = ref.LongestRunTable(10000, 10, 6, 6)
		}
		for i := range w {
			if got[i] != w[i] {
				t.Errorf("longest-run table m=%d class %d: exact DP gives %v, standard prints %v", m, i, got[i], w[i])
			}
		}
	}
	// recursive FFT vs naive DFT
	r := gen.NewRng(7)
	for _, N := range []int{2, 8, 64, 1024} {
		x := make([]complex128, N)
		nrm := 0.0
		for i := range x {
			x[i] = complex(r.Float()*2-1, r.Float()*2-1)
			nrm += real(x[i])*real(x[i]) + imag(x[i])*imag(x[i])
		}
		a, b := ref.NaiveDFT(x), ref.RecFFT(x)
		for k := range a {
			d := a[k] - b[k]
			if math.Hypot(real(d), imag(d)) > 1e-12*math.Sqrt(nrm)*10 {
				t.Fatalf("RecFFT vs NaiveDFT differ at N=%d k=%d", N, k)
			}
		}
		for _, k := range []int{0, 1, N / 2, N - 1} {
			d := ref.DirectBin(x, k) - a[k]
			if math.Hypot(real(d), imag(d)) > 1e-12*math.Sqrt(nrm)*10 {
				t.Fatalf("DirectBin vs NaiveDFT differ at N=%d k=%d", N, k)
			}
		}
	}
	// closed-form transition spectrum vs naive DFT
	for _, tc := range [][2]int{{100, 33}, {128, 5}, {1000, 999}, {777, 0}} {
		n, tt := tc[0], tc[1]
		e := gen.Seq{Family: "transition", N: n, A: 1, Pos: []int{tt}}.Expand()
		_, _, lo, amb := ref.DFTTest(e)
		lo2, amb2 := ref.TransitionSpectrumCount(n, tt, ref.NextPow2(n), n/2-1, math.Sqrt(2.995732274*float64(n)), 1e-9)
		if lo != lo2 || amb != amb2 {
			t.Errorf("TransitionSpectrumCount(n=%d,t=%d) = (%d,%d), DFT reference (%d,%d)", n, tt, lo2, amb2, lo, amb)
		}
	}
	// BM / rank sanity
	if ref.BM(gen.Unpack([]byte{0x00, 0x01})) != 16 || ref.BM(make([]bool, 9)) != 0 {
		t.Errorf("ref.BM sanity")
	}
}
