//go:build verif

package main

// In-package access to tools/rddetector (package main), injected virtually with
// `go test -overlay` by /verif/check; /repo is never modified.  The shim is thin on
// purpose: it only drives the unexported per-scale workers / helpers and prints what they
// produced as JSON.  All judging happens in /verif/harness/props (C13, C20).
//
//	VERIF_SHIM=headers                          -> {"2E4": header, "1E6": ..., "1E8": ...}
//	VERIF_SHIM=worker VERIF_SHIM_SCALE=1E8 VERIF_SHIM_WORKERS=n VERIF_SHIM_FILES=a:b:c
//	                                            -> {"header": ..., "rows": [{"name":..,"p":[..],"q":[..]}]}
//	VERIF_SHIM=count  VERIF_SHIM_DIR=dir        -> {"samples": s, "bits": n}

import (
	"encoding/json"
	"fmt"
	"io"
	"log"
	"os"
	"strconv"
	"strings"
	"testing"
)

type shimRow struct {
	Name string    `json:"name"`
	P    []float64 `json:"p"`
	Q    []float64 `json:"q"`
}

func TestMain(m *testing.M) {
	mode := os.Getenv("VERIF_SHIM")
	if mode == "" {
		os.Exit(m.Run())
	}
	log.SetOutput(io.Discard)
	enc := json.NewEncoder(os.Stdout)
	switch mode {
	case "headers":
		_ = enc.Encode(map[string]string{"2E4": Header_2E4, "1E6": Header_1E6, "1E8": Header_1E8})
	case "count":
		s, bits := toBeTestFileNum(os.Getenv("VERIF_SHIM_DIR"))
		_ = enc.Encode(map[string]int64{"samples": int64(s), "bits": bits})
	case "worker":
		var w func(<-chan string, chan<- *R)
		var hdr string
		switch os.Getenv("VERIF_SHIM_SCALE") {
		case "2E4":
			w, hdr = worker_2E4, Header_2E4
		case "1E6":
			w, hdr = worker_1E6, Header_1E6
		case "1E8":
			w, hdr = worker_1E8, Header_1E8
		default:
			fmt.Fprintln(os.Stderr, "bad scale")
			os.Exit(2)
		}
		files := strings.Split(os.Getenv("VERIF_SHIM_FILES"), ":")
		n, _ := strconv.Atoi(os.Getenv("VERIF_SHIM_WORKERS"))
		if n < 1 {
			n = 1
		}
		jobs := make(chan string)
		out := make(chan *R)
		for i := 0; i < n; i++ {
			go w(jobs, out)
		}
		go func() {
			for _, f := range files {
				jobs <- f
			}
		}()
		rows := make([]shimRow, 0, len(files))
		for range files {
			r := <-out
			rows = append(rows, shimRow{Name: r.Name, P: r.P, Q: r.Q})
		}
		_ = enc.Encode(map[string]interface{}{"header": hdr, "rows": rows})
	}
	os.Exit(0)
}
