package ref

import (
	"math"
	"math/big"
)

func b2f(b bool) int {
	if b {
		return 1
	}
	return 0
}

func TwoSided(v float64) (float64, float64) { // v is the N(0,1) statistic
	return math.Erfc(math.Abs(v) / math.Sqrt2), math.Erfc(v/math.Sqrt2) / 2
}

func Monobit(e []bool) (float64, float64) {
	ones := 0
	for _, b := range e {
		ones += b2f(b)
	}
	n := len(e)
	return TwoSided(float64(2*ones-n) / math.Sqrt(float64(n)))
}

func AutoM(n int) int {
	switch {
	case n < 1000:
		return 10
	case n < 10000:
		return 100
	case n < 1000000:
		return 1000
	case n < 100000000:
		return 10000
	}
	return 1000000
}

func BlockFreq(e []bool, m int) float64 {
	N := len(e) / m
	v := 0.0
	for i := 0; i < N; i++ {
		ones := 0
		for _, b := range e[i*m : (i+1)*m] {
			ones += b2f(b)
		}
		d := float64(ones)/float64(m) - 0.5
		v += d * d
	}
	v *= 4 * float64(m)
	return Igamc(float64(N)/2, v/2)
}

func pat(e []bool) int {
	x := 0
	for _, b := range e {
		x = x<<1 | b2f(b)
	}
	return x
}

func Poker(e []bool, m int) float64 {
	N := len(e) / m
	cnt := map[int]int{}
	for i := 0; i < N; i++ {
		cnt[pat(e[i*m:(i+1)*m])]++
	}
	s := 0.0
	for p := 0; p < 1<<uint(m); p++ {
		s += float64(cnt[p]) * float64(cnt[p])
	}
	v := float64(int(1)<<uint(m))/float64(N)*s - float64(N)
	return Igamc(float64((int(1)<<uint(m))-1)/2, v/2)
}

// sumSq returns the sum of squared counts of the n cyclic m-bit windows (m >= 1); for m <= 0 it is n^2
// (one empty pattern occurring n times, so that psi^2_0 = 0).
func sumSq(e []bool, m int) int64 {
	n := len(e)
	if m <= 0 {
		return int64(n) * int64(n)
	}
	ext := append(append([]bool{}, e...), e[:m-1]...)
	cnt := make([]int64, 1<<uint(m))
	for i := 0; i < n; i++ {
		cnt[pat(ext[i:i+m])]++
	}
	var s int64
	for _, c := range cnt {
		s += c * c
	}
	return s
}

// Psi2 = (2^m/n) sum v^2 - n.
func Psi2(e []bool, m int) float64 {
	if m <= 0 {
		return 0
	}
	n := float64(len(e))
	return float64(int64(1)<<uint(m))*float64(sumSq(e, m))/n - n
}

// Overlap: the two differences are formed exactly on the integer sums (the -n terms cancel):
// del psi^2 = (2^m S_m - 2^(m-1) S_(m-1))/n, del^2 psi^2 = (2^m S_m - 2 2^(m-1) S_(m-1) + 2^(m-2) S_(m-2))/n.
func Overlap(e []bool, m int) (float64, float64) {
	n := new(big.Rat).SetInt64(int64(len(e)))
	term := func(k int) *big.Int {
		if k < 0 {
			return big.NewInt(0)
		}
		return new(big.Int).Mul(new(big.Int).Lsh(big.NewInt(1), uint(k)), big.NewInt(sumSq(e, k)))
	}
	a, b, c := term(m), term(m-1), term(m-2)
	d1 := new(big.Int).Sub(a, b)
	d2 := new(big.Int).Add(new(big.Int).Sub(a, new(big.Int).Lsh(b, 1)), c)
	f1, _ := new(big.Rat).Quo(new(big.Rat).SetInt(d1), n).Float64()
	f2, _ := new(big.Rat).Quo(new(big.Rat).SetInt(d2), n).Float64()
	return Igamc(math.Pow(2, float64(m-2)), f1/2), Igamc(math.Pow(2, float64(m-3)), f2/2)
}

func Runs(e []bool) (float64, float64) {
	n := len(e)
	ones := 0
	for _, b := range e {
		ones += b2f(b)
	}
	pi := float64(ones) / float64(n)
	vobs := 1
	for i := 1; i < n; i++ {
		if e[i] != e[i-1] {
			vobs++
		}
	}
	v := (float64(vobs) - 2*float64(n)*pi*(1-pi)) / (2 * math.Sqrt(float64(n)) * pi * (1 - pi))
	return TwoSided(v)
}

// Run is a maximal block of equal symbols.
type Run struct {
	Sym bool
	L   int
}

func RunsOf(e []bool) []Run {
	var rs []Run
	for i := 0; i < len(e); {
		j := i
		for j < len(e) && e[j] == e[i] {
			j++
		}
		rs = append(rs, Run{e[i], j - i})
		i = j
	}
	return rs
}

func RunsDist(e []bool) float64 {
	n := len(e)
	k := 0
	for i := 1; i <= n; i++ {
		if float64(n-i+3)/math.Pow(2, float64(i+2)) >= 5 {
			k = i
		}
		if i > 64 {
			break
		}
	}
	b := make([]float64, k+1)
	g := make([]float64, k+1)
	T := 0.0
	for _, r := range RunsOf(e) {
		l := r.L
		if l > k {
			l = k
		}
		if r.Sym {
			b[l]++
		} else {
			g[l]++
		}
		T++
	}
	v := 0.0
	for i := 1; i <= k; i++ {
		ei := T / math.Pow(2, float64(i+1))
		if i == k {
			ei = T / math.Pow(2, float64(k))
		}
		v += (b[i]-ei)*(b[i]-ei)/ei + (g[i]-ei)*(g[i]-ei)/ei
	}
	return Igamc(float64(k-1), v/2)
}

func LongestRun(e []bool, ones bool) float64 {
	n := len(e)
	var m, lo, K int
	var pi []float64
	switch {
	case n < 6272:
		m, lo, K = 8, 1, 3
		pi = LongestRunTable(8, 1, 3, 4)
	case n < 750000:
		m, lo, K = 128, 4, 5
		pi = LongestRunTable(128, 4, 5, 4)
	default:
		m, lo, K = 10000, 10, 6
		pi = LongestRunTable(10000, 10, 6, 6)
	}
	N := n / m
	v := make([]float64, K+1)
	for i := 0; i < N; i++ {
		best := 0
		for _, r := range RunsOf(e[i*m : (i+1)*m]) {
			if r.Sym == ones && r.L > best {
				best = r.L
			}
		}
		c := best - lo
		if c < 0 {
			c = 0
		}
		if c > K {
			c = K
		}
		v[c]++
	}
	x := 0.0
	for i := range v {
		ex := float64(N) * pi[i]
		x += (v[i] - ex) * (v[i] - ex) / ex
	}
	return Igamc(float64(K)/2, x/2)
}

func BinDeriv(e []bool, k int) (float64, float64) {
	cur := append([]bool{}, e...)
	for r := 0; r < k; r++ {
		nx := make([]bool, len(cur)-1)
		for i := range nx {
			nx[i] = cur[i] != cur[i+1]
		}
		cur = nx
	}
	ones := 0
	for _, b := range cur {
		ones += b2f(b)
	}
	return TwoSided(float64(2*ones-len(cur)) / math.Sqrt(float64(len(cur))))
}

func Autocorr(e []bool, d int) (float64, float64) {
	n := len(e)
	a := 0
	for i := 0; i+d < n; i++ {
		if e[i] != e[i+d] {
			a++
		}
	}
	v := 2 * (float64(a) - float64(n-d)/2) / math.Sqrt(float64(n-d))
	return TwoSided(v)
}

func phi(x float64) float64 { return 0.5 * math.Erfc(-x/math.Sqrt2) }

func Cusum(e []bool, forward bool) float64 {
	n := len(e)
	s, z := 0, 0
	for i := 0; i < n; i++ {
		b := e[i]
		if !forward {
			b = e[n-1-i]
		}
		if b {
			s++
		} else {
			s--
		}
		if s > z {
			z = s
		}
		if -s > z {
			z = -s
		}
	}
	return CusumP(n, z)
}

// CusumP is the standard's normal-CDF series for a walk of n steps with maximum absolute partial sum z.
func CusumP(n, z int) float64 {
	sn := math.Sqrt(float64(n))
	fz := float64(z)
	p := 1.0
	tdiv := func(a, b int) int { return a / b } // truncation toward zero as in the reference C code
	for k := tdiv(-n/z+1, 4); k <= tdiv(n/z-1, 4); k++ {
		p -= phi(float64(4*k+1)*fz/sn) - phi(float64(4*k-1)*fz/sn)
	}
	for k := tdiv(-n/z-3, 4); k <= tdiv(n/z-1, 4); k++ {
		p += phi(float64(4*k+3)*fz/sn) - phi(float64(4*k+1)*fz/sn)
	}
	return p
}

func ApEn(e []bool, m int) float64 {
	n := len(e)
	phim := func(m int) float64 {
		ext := append(append([]bool{}, e...), e[:m-1]...)
		cnt := make([]int, 1<<uint(m))
		for i := 0; i < n; i++ {
			cnt[pat(ext[i:i+m])]++
		}
		s := 0.0
		for _, c := range cnt {
			if c > 0 {
				f := float64(c) / float64(n)
				s += f * math.Log(f)
			}
		}
		return s
	}
	apen := phim(m) - phim(m+1)
	v := 2 * float64(n) * (math.Ln2 - apen)
	return Igamc(math.Pow(2, float64(m-1)), v/2)
}

// GF(2) rank via bitset rows (uint64 words), full reduction
func GF2Rank(rows []uint64) int {
	r := 0
	rs := append([]uint64{}, rows...)
	for bit := 63; bit >= 0 && r < len(rs); bit-- {
		p := -1
		for i := r; i < len(rs); i++ {
			if rs[i]>>uint(bit)&1 == 1 {
				p = i
				break
			}
		}
		if p < 0 {
			continue
		}
		rs[r], rs[p] = rs[p], rs[r]
		for i := 0; i < len(rs); i++ {
			if i != r && rs[i]>>uint(bit)&1 == 1 {
				rs[i] ^= rs[r]
			}
		}
		r++
	}
	return r
}

func Rank(e []bool) float64 {
	N := len(e) / 1024
	var f32, f31, fr float64
	for i := 0; i < N; i++ {
		rows := make([]uint64, 32)
		for r := 0; r < 32; r++ {
			rows[r] = uint64(pat(e[i*1024+r*32 : i*1024+r*32+32]))
		}
		switch GF2Rank(rows) {
		case 32:
			f32++
		case 31:
			f31++
		default:
			fr++
		}
	}
	n := float64(N)
	v := (f32-0.2888*n)*(f32-0.2888*n)/(0.2888*n) + (f31-0.5776*n)*(f31-0.5776*n)/(0.5776*n) + (fr-0.1336*n)*(fr-0.1336*n)/(0.1336*n)
	return Igamc(1, v/2)
}

// textbook Berlekamp-Massey over GF(2) using growing slices
func BM(s []bool) int {
	c := []int{1}
	b := []int{1}
	L, m := 0, 1
	for n := 0; n < len(s); n++ {
		d := b2f(s[n])
		for i := 1; i <= L && i < len(c); i++ {
			d ^= c[i] & b2f(s[n-i])
		}
		if d == 0 {
			m++
			continue
		}
		t := append([]int{}, c...)
		for len(c) < len(b)+m {
			c = append(c, 0)
		}
		for i, v := range b {
			c[i+m] ^= v
		}
		if 2*L <= n {
			L = n + 1 - L
			b = t
			m = 1
		} else {
			m++
		}
	}
	return L
}

func LinComp(e []bool, m int) float64 {
	N := len(e) / m
	sign := 1.0
	if m%2 == 1 {
		sign = -1
	}
	mu := float64(m)/2 + (9-sign)/36 - (float64(m)/3+2.0/9)/math.Pow(2, float64(m))
	v := make([]float64, 7)
	for i := 0; i < N; i++ {
		L := BM(e[i*m : (i+1)*m])
		T := sign*(float64(L)-mu) + 2.0/9
		switch {
		case T <= -2.5:
			v[0]++
		case T <= -1.5:
			v[1]++
		case T <= -0.5:
			v[2]++
		case T <= 0.5:
			v[3]++
		case T <= 1.5:
			v[4]++
		case T <= 2.5:
			v[5]++
		default:
			v[6]++
		}
	}
	pi := []float64{0.010417, 0.03125, 0.125, 0.5, 0.25, 0.0625, 0.020833}
	x := 0.0
	for i := range v {
		ex := float64(N) * pi[i]
		x += (v[i] - ex) * (v[i] - ex) / ex
	}
	return Igamc(3, x/2)
}

func Maurer(e []bool) (float64, float64) {
	const L, Q = 7, 1280
	nb := len(e) / L
	K := nb - Q
	last := map[int]int{}
	sum := 0.0
	for i := 1; i <= nb; i++ {
		p := pat(e[(i-1)*L : i*L])
		if i > Q {
			sum += math.Log2(float64(i - last[p]))
		}
		last[p] = i
	}
	fn := sum / float64(K)
	c := 0.7 - 0.8/float64(L) + (4+32.0/float64(L))*math.Pow(float64(K), -3.0/float64(L))/15
	sigma := c * math.Sqrt(3.125/float64(K))
	return TwoSided((fn - 6.1962507) / sigma)
}
