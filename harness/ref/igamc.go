package ref

import (
	"math"
	"math/big"
)

// Independent regularized upper incomplete gamma function Q(a,x) for a an
// integer or half-integer: finite sums of positive terms in 320-bit big.Float.
//
//	Q(k,x)     = e^-x  sum_{j<k} x^j/j!
//	Q(k+1/2,x) = erfc(sqrt x) + e^-x sum_{j<k} x^{j+1/2}/Gamma(j+3/2)

const prec = 320

func bf(x float64) *big.Float { return new(big.Float).SetPrec(prec).SetFloat64(x) }

func bigExp(x *big.Float) *big.Float {
	neg := x.Sign() < 0
	ax := new(big.Float).SetPrec(prec).Abs(x)
	j := 0
	one := bf(1)
	two := bf(2)
	r := new(big.Float).SetPrec(prec).Set(ax)
	for r.Cmp(one) > 0 {
		r.Quo(r, two)
		j++
	}
	for i := 0; i < 8; i++ {
		r.Quo(r, two)
		j++
	}
	sum := bf(1)
	term := bf(1)
	for k := 1; k < 60; k++ {
		term.Mul(term, r)
		term.Quo(term, bf(float64(k)))
		sum.Add(sum, term)
	}
	for i := 0; i < j; i++ {
		sum.Mul(sum, sum)
	}
	if neg {
		return new(big.Float).SetPrec(prec).Quo(one, sum)
	}
	return sum
}

var bigPi, _ = new(big.Float).SetPrec(prec).SetString("3.14159265358979323846264338327950288419716939937510582097494459230781640628620899862803482534211706798214808651328230664709384460955058223172535940812848111745")

// IsHalfInt reports whether 2a is a positive integer.
func IsHalfInt(a float64) bool {
	t := math.Round(2 * a)
	return t >= 1 && math.Abs(t-2*a) < 1e-12
}

// Igamc returns Q(a,x) for a>0 an integer or half integer.
func Igamc(a, x float64) float64 {
	if x <= 0 {
		return 1
	}
	if !IsHalfInt(a) {
		panic("ref.Igamc: a must be a positive integer or half-integer")
	}
	twoA := int(math.Round(2 * a))
	X := bf(x)
	emx := bigExp(new(big.Float).SetPrec(prec).Neg(X))
	sum := bf(0)
	if twoA%2 == 0 {
		n := twoA / 2
		term := bf(1)
		for k := 0; k < n; k++ {
			if k > 0 {
				term.Mul(term, X)
				term.Quo(term, bf(float64(k)))
			}
			sum.Add(sum, term)
		}
		sum.Mul(sum, emx)
		f, _ := sum.Float64()
		return f
	}
	j := (twoA - 1) / 2
	sq := new(big.Float).SetPrec(prec).Sqrt(X)
	sqpi := new(big.Float).SetPrec(prec).Sqrt(bigPi)
	term := new(big.Float).SetPrec(prec).Quo(sq, sqpi)
	term.Mul(term, bf(2))
	for k := 0; k < j; k++ {
		if k > 0 {
			term.Mul(term, X)
			term.Quo(term, bf(float64(k)+0.5))
		}
		sum.Add(sum, term)
	}
	sum.Mul(sum, emx)
	f, _ := sum.Float64()
	return f + math.Erfc(math.Sqrt(x))
}
