// Package ref holds the oracles. It must not import the code under test.
package ref
