package ref

import (
	"math"
	"math/cmplx"
)

// NaiveDFT computes X[k] = sum_j x[j] exp(-2 pi i jk/N) directly (O(N^2)),
// reducing jk mod N exactly before taking the angle.
func NaiveDFT(x []complex128) []complex128 {
	N := len(x)
	out := make([]complex128, N)
	tw := make([]complex128, N)
	for r := 0; r < N; r++ {
		tw[r] = cmplx.Rect(1, -2*math.Pi*float64(r)/float64(N))
	}
	for k := 0; k < N; k++ {
		var sr, si float64
		for j, v := range x {
			w := tw[(j*k)%N]
			p := v * w
			sr += real(p)
			si += imag(p)
		}
		out[k] = complex(sr, si)
	}
	return out
}

// DirectBin computes one DFT bin by direct O(N) summation with Kahan compensation.
func DirectBin(x []complex128, k int) complex128 {
	N := len(x)
	var sr, si, cr, ci float64
	for j, v := range x {
		r := int((int64(j) * int64(k)) % int64(N))
		p := v * cmplx.Rect(1, -2*math.Pi*float64(r)/float64(N))
		yr := real(p) - cr
		tr := sr + yr
		cr = (tr - sr) - yr
		sr = tr
		yi := imag(p) - ci
		ti := si + yi
		ci = (ti - si) - yi
		si = ti
	}
	return complex(sr, si)
}

// RecFFT is a recursive decimation-in-time FFT (N a power of two); it shares no
// code or table layout with the library's iterative stride-indexed version.
func RecFFT(x []complex128) []complex128 {
	N := len(x)
	if N == 1 {
		return []complex128{x[0]}
	}
	ev := make([]complex128, N/2)
	od := make([]complex128, N/2)
	for i := 0; i < N/2; i++ {
		ev[i] = x[2*i]
		od[i] = x[2*i+1]
	}
	E := RecFFT(ev)
	O := RecFFT(od)
	out := make([]complex128, N)
	for k := 0; k < N/2; k++ {
		t := cmplx.Rect(1, -2*math.Pi*float64(k)/float64(N)) * O[k]
		out[k] = E[k] + t
		out[k+N/2] = E[k] - t
	}
	return out
}

// NextPow2 returns the smallest power of two >= max(n,2).
func NextPow2(n int) int {
	N := 2
	for N < n {
		N *= 2
	}
	return N
}

// DFTTest returns the (P,Q) pairs for the smallest and largest admissible
// peak count: bins whose magnitude is within relative band of the threshold
// are ambiguous and may be counted either way.
func DFTTest(e []bool) (lo, hi [2]float64, n1lo, amb int) {
	n := len(e)
	N := NextPow2(n)
	x := make([]complex128, N)
	for i, b := range e {
		if b {
			x[i] = 1
		} else {
			x[i] = -1
		}
	}
	var X []complex128
	if N <= 2048 {
		X = NaiveDFT(x)
	} else {
		X = RecFFT(x)
	}
	cnt := n/2 - 1
	T := math.Sqrt(2.995732274 * float64(n))
	band := 1e-9
	for k := 0; k < cnt; k++ {
		m := cmplx.Abs(X[k])
		if m < T*(1-band) {
			n1lo++
		} else if m < T*(1+band) {
			amb++
		}
	}
	f := func(n1 int) [2]float64 {
		v := (float64(n1) - 0.95*float64(n)/2) / math.Sqrt(0.95*0.05*float64(n)/3.8)
		p, q := TwoSided(v)
		return [2]float64{p, q}
	}
	return f(n1lo), f(n1lo + amb), n1lo, amb
}

// TransitionSpectrumCount: analytic spectrum of the +-1 sequence that is +s for i < t and -s for t <= i < n,
// zero-extended to N points:  X_k = s (2 G(t,k) - G(n,k)),  G(L,k) = sum_{i<L} w^{ik} = (1 - w^{Lk}) / (1 - w^k), w = exp(-2 pi i / N).
// Returns how many of the first cnt magnitudes are certainly below T (lo) and how many are within the relative band (amb).
func TransitionSpectrumCount(n, t, N, cnt int, T, band float64) (lo, amb int) {
	g := func(L, k int) complex128 {
		if k == 0 {
			return complex(float64(L), 0)
		}
		r := int((int64(L) * int64(k)) % int64(N))
		num := 1 - cmplx.Rect(1, -2*math.Pi*float64(r)/float64(N))
		den := 1 - cmplx.Rect(1, -2*math.Pi*float64(k)/float64(N))
		return num / den
	}
	for k := 0; k < cnt; k++ {
		m := cmplx.Abs(2*g(t, k) - g(n, k))
		if m < T*(1-band) {
			lo++
		} else if m < T*(1+band) {
			amb++
		}
	}
	return
}
