package ref

import (
	"math"
	"math/big"
	"strconv"
)

// Threshold: smallest integer t with t >= s(1 - a - 3 sqrt(a(1-a)/s)), a = 1/100,
// decided in exact integer arithmetic:
//
//	t >= 0.99 s - sqrt(0.0891 s)  <=>  100 t >= 99 s  or  (99 s - 100 t)^2 <= 891 s.
func Threshold(s int64) int64 {
	ok := func(t int64) bool {
		d := 99*s - 100*t
		if d <= 0 {
			return true
		}
		D := new(big.Int).Mul(big.NewInt(d), big.NewInt(d))
		return D.Cmp(new(big.Int).Mul(big.NewInt(891), big.NewInt(s))) <= 0
	}
	t := int64(math.Floor(0.99*float64(s)-math.Sqrt(0.0891*float64(s)))) - 3
	for !ok(t) {
		t++
	}
	// make sure it is the smallest
	for ok(t - 1) {
		t--
	}
	return t
}

var edges = func() []float64 {
	out := make([]float64, 9)
	for i := 1; i <= 9; i++ {
		out[i-1], _ = strconv.ParseFloat("0."+strconv.Itoa(i), 64)
	}
	return out
}()

// Bin returns the index of the interval [0,.1),[.1,.2),...,[.9,1] that q belongs to.
func Bin(q float64) int {
	lo, hi := 0, 9 // number of edges <= q
	for lo < hi {
		mid := (lo + hi) / 2
		if edges[mid] <= q {
			lo = mid + 1
		} else {
			hi = mid
		}
	}
	return lo
}

// Uniformity returns Q(9/2, V/2) for the ten-bin chi-square of qs, and the histogram.
func Uniformity(qs []float64) (float64, [10]int) {
	var h [10]int
	for _, q := range qs {
		h[Bin(q)]++
	}
	s := float64(len(qs))
	v := 0.0
	for _, c := range h {
		d := float64(c) - s/10
		v += d * d / (s / 10)
	}
	return Igamc(4.5, v/2), h
}

// SampleResult is what the decision model needs from one (sample, item) cell.
type SampleResult struct {
	Q    float64
	Pass bool
}

// Decision of the GM/T 0005 section 6 rule over an s x items result matrix.
type Decision struct {
	Verdict   bool
	Violating []int     // item indexes violating at least one criterion
	PassCount []int     // per item
	UniformP  []float64 // per item
	Threshold int
}

// Decide applies: for every item, #pass >= Threshold(s) and Uniformity(Q) >= 1e-4.
// res[sample][item].
func Decide(res [][]SampleResult) Decision {
	s := len(res)
	items := len(res[0])
	d := Decision{Verdict: true, Threshold: int(Threshold(int64(s)))}
	for j := 0; j < items; j++ {
		pc := 0
		qs := make([]float64, s)
		for i := 0; i < s; i++ {
			if res[i][j].Pass {
				pc++
			}
			qs[i] = res[i][j].Q
		}
		up, _ := Uniformity(qs)
		d.PassCount = append(d.PassCount, pc)
		d.UniformP = append(d.UniformP, up)
		if pc < d.Threshold || up < 1e-4 {
			d.Verdict = false
			d.Violating = append(d.Violating, j)
		}
	}
	return d
}
