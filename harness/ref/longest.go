package ref

import (
	"fmt"
	"math/big"
	"strconv"
	"sync"
)

var lrCache sync.Map

// countLE returns the number of binary strings of length m whose longest run of
// ones is <= r  (exact, big integers): a[n] = 2^n for n<=r, else sum_{j<=r} a[n-1-j].
func countLE(m, r int) *big.Int {
	a := make([]*big.Int, m+1)
	for n := 0; n <= m; n++ {
		if n <= r {
			a[n] = new(big.Int).Lsh(big.NewInt(1), uint(n))
			continue
		}
		// a[n] = 2a[n-1] - a[n-r-2]   (with a[-1] := 1 for n == r+1)
		v := new(big.Int).Lsh(a[n-1], 1)
		if n-r-2 >= 0 {
			v.Sub(v, a[n-r-2])
		} else {
			v.Sub(v, big.NewInt(1))
		}
		a[n] = v
	}
	return a[m]
}

// LongestRunTable returns the class probabilities {<=lo, lo+1, ..., lo+K-1, >=lo+K}
// of the longest run in a uniformly random block of length m, rounded to the
// given number of decimals (the standard's printed precision).
func LongestRunTable(m, lo, K, decimals int) []float64 {
	key := fmt.Sprintf("%d/%d/%d/%d", m, lo, K, decimals)
	if v, ok := lrCache.Load(key); ok {
		return v.([]float64)
	}
	tot := new(big.Int).Lsh(big.NewInt(1), uint(m))
	c := make([]*big.Int, K)
	for i := 0; i < K; i++ {
		c[i] = countLE(m, lo+i)
	}
	num := make([]*big.Int, K+1)
	num[0] = c[0]
	for i := 1; i < K; i++ {
		num[i] = new(big.Int).Sub(c[i], c[i-1])
	}
	num[K] = new(big.Int).Sub(tot, c[K-1])
	out := make([]float64, K+1)
	for i, x := range num {
		r := new(big.Rat).SetFrac(x, tot)
		s := r.FloatString(decimals) // rounds half away from zero on the exact value
		f, _ := strconv.ParseFloat(s, 64)
		out[i] = f
	}
	lrCache.Store(key, out)
	return out
}
