package gen

import (
	"errors"
	"io"
	"os"
	"runtime"
	"sync"
	"syscall"
	"time"
)

// ErrCustom is the "custom error" fault kind.
var ErrCustom = errors.New("verif: injected source failure")

// DeviceFault is an error of its own concrete type (like *fs.PathError from a failing device node).
type DeviceFault struct{ Code int }

func (e *DeviceFault) Error() string { return "verif: injected device fault" }

// Fault kinds.
const (
	FaultEOF              = "eof"
	FaultUnexpected       = "unexpected_eof"
	FaultCustom           = "custom"
	FaultPartial          = "error_with_partial_data"
	FaultTransient        = "transient_custom"
	FaultTypedEOF         = "typed_error_then_eof"              // first failing Read returns a *DeviceFault, every later Read returns io.EOF
	FaultTransientPartial = "transient_error_with_partial_data" // once: an error returned together with a partial read; afterwards the source delivers again
	FaultTemporary        = "temporary_error"                   // an error whose Temporary() method reports true (EAGAIN-like), returned on every Read from the fault on
	FaultOSError          = "os_path_error"                     // what a failing device node returns: *os.PathError{read, /dev/hwrng, EIO} on every Read from the fault on
	FaultEOFThenOS        = "eof_then_os_error"                 // the first failing Read returns io.EOF, every later one an *os.PathError (a file closed underneath the reader)
)

// TemporaryFault is an error with Temporary() == true that nevertheless never goes away.
type TemporaryFault struct{}

func (TemporaryFault) Error() string   { return "verif: resource temporarily unavailable" }
func (TemporaryFault) Temporary() bool { return true }
func (TemporaryFault) Timeout() bool   { return false }

// FaultKinds lists all injectable failure kinds.
var FaultKinds = []string{FaultEOF, FaultUnexpected, FaultCustom, FaultPartial, FaultTransient, FaultTypedEOF, FaultTemporary, FaultTransientPartial, FaultOSError, FaultEOFThenOS}

// Reader is a concurrency-safe stream over a fixed byte slice with a chunk
// plan (how many bytes each Read may return), an optional fault offset and an
// optional delay plan (schedule perturbation).  All behaviour is a pure
// function of the configuration and of the order in which Read calls acquire
// the mutex.
type Reader struct {
	mu         sync.Mutex
	data       []byte
	off        int
	Plan       []int // chunk sizes, cycled; empty = fill the whole buffer
	pi         int
	Fault      int           // byte offset at which the source dies; <0 = never
	Kind       string        // fault kind
	Delays     []int         // per-Read delay code, cycled: 0 none, 1..9 Gosched x k, >=10 sleep microseconds
	FaultDelay time.Duration // the first Read that reports an injected failure takes this long to return (a device that hangs before it gives up)
	di         int

	Calls       int
	Faulted     int // number of Reads that returned an injected error
	Delivered   int
	InRead      int32
	Wrap        bool // cycle data forever (periodic sources)
	EOFWithData bool // when a Read delivers the last byte of the data it returns io.EOF together with it (allowed by io.Reader)
}

func NewReader(data []byte) *Reader { return &Reader{data: data, Fault: -1} }

func (r *Reader) failure() error {
	switch r.Kind {
	case FaultEOF:
		return io.EOF
	case FaultUnexpected:
		return io.ErrUnexpectedEOF
	case FaultTemporary:
		return TemporaryFault{}
	case FaultOSError:
		return &os.PathError{Op: "read", Path: "/dev/hwrng", Err: syscall.EIO}
	case FaultEOFThenOS:
		if r.Faulted == 0 {
			return io.EOF
		}
		return &os.PathError{Op: "read", Path: "/dev/hwrng", Err: os.ErrClosed}
	case FaultTypedEOF:
		if r.Faulted == 0 {
			return &DeviceFault{Code: 5}
		}
		return io.EOF
	default:
		return ErrCustom
	}
}

func (r *Reader) Read(p []byte) (int, error) {
	r.mu.Lock()
	delay := 0
	if len(r.Delays) > 0 {
		delay = r.Delays[r.di%len(r.Delays)]
		r.di++
	}
	r.Calls++
	if len(p) == 0 {
		r.mu.Unlock()
		return 0, nil
	}
	want := len(p)
	if len(r.Plan) > 0 {
		c := r.Plan[r.pi%len(r.Plan)]
		r.pi++
		if c < 1 {
			c = 1
		}
		if c < want {
			want = c
		}
	}
	limit := len(r.data)
	if r.Fault >= 0 && r.Fault < limit {
		limit = r.Fault
	}
	var n int
	var err error
	if r.Wrap && r.Fault < 0 {
		for n < want {
			n += copy(p[n:want], r.data[(r.off+n)%len(r.data):])
		}
		r.off += n
	} else {
		avail := limit - r.off
		if avail <= 0 {
			if r.Fault >= 0 {
				err = r.failure()
				r.Faulted++
				if r.Kind == FaultTransient || r.Kind == FaultTransientPartial {
					r.Fault = -1 // fails once, then keeps delivering
				}
			} else {
				err = io.EOF
			}
		} else {
			if want > avail {
				want = avail
				// the fault is reached inside this read
				if r.Fault >= 0 && (r.Kind == FaultPartial || r.Kind == FaultTransientPartial) {
					err = r.failure()
					r.Faulted++
					if r.Kind == FaultTransientPartial {
						r.Fault = -1 // fails once (together with data), then keeps delivering
					}
				}
			}
			n = copy(p[:want], r.data[r.off:r.off+want])
			r.off += n
			if r.EOFWithData && r.Fault < 0 && r.off == len(r.data) && err == nil {
				err = io.EOF
			}
		}
	}
	r.Delivered += n
	slowFail := r.FaultDelay
	if err == nil || err == io.EOF && r.Fault < 0 || r.Faulted != 1 {
		slowFail = 0 // only the first failing Read hangs; later ones fail at once
	}
	r.mu.Unlock()
	if slowFail > 0 {
		time.Sleep(slowFail)
	}
	switch {
	case delay == 0:
	case delay < 10:
		for i := 0; i < delay; i++ {
			runtime.Gosched()
		}
	default:
		time.Sleep(time.Duration(delay) * time.Microsecond)
	}
	return n, err
}

// FailedReads returns how many Reads returned an injected error so far.
func (r *Reader) FailedReads() int {
	r.mu.Lock()
	defer r.mu.Unlock()
	return r.Faulted
}

// Consumed returns how many bytes were delivered so far.
func (r *Reader) Consumed() int {
	r.mu.Lock()
	defer r.mu.Unlock()
	return r.Delivered
}
