// Package gen holds generators: deterministic recipe expansion (no wall clock,
// no private randomness: every seed is a rapid draw) and rapid draw helpers.
package gen

import (
	"math"

	"pgregory.net/rapid"
)

// Rng is xoshiro256** seeded through splitmix64.
type Rng struct{ s [4]uint64 }

func NewRng(seed uint64) *Rng {
	r := &Rng{}
	x := seed
	for i := range r.s {
		x += 0x9e3779b97f4a7c15
		z := x
		z = (z ^ (z >> 30)) * 0xbf58476d1ce4e5b9
		z = (z ^ (z >> 27)) * 0x94d049bb133111eb
		r.s[i] = z ^ (z >> 31)
	}
	return r
}

func rotl(x uint64, k uint) uint64 { return (x << k) | (x >> (64 - k)) }

func (r *Rng) Uint64() uint64 {
	res := rotl(r.s[1]*5, 7) * 9
	t := r.s[1] << 17
	r.s[2] ^= r.s[0]
	r.s[3] ^= r.s[1]
	r.s[1] ^= r.s[2]
	r.s[0] ^= r.s[3]
	r.s[2] ^= t
	r.s[3] = rotl(r.s[3], 45)
	return res
}

func (r *Rng) Intn(n int) int { return int(r.Uint64() % uint64(n)) }

func (r *Rng) Float() float64 { return float64(r.Uint64()>>11) / (1 << 53) }

// Bytes fills a fresh slice of n pseudo-random bytes.
func (r *Rng) Bytes(n int) []byte {
	out := make([]byte, n)
	for i := 0; i < n; i += 8 {
		v := r.Uint64()
		for j := 0; j < 8 && i+j < n; j++ {
			out[i+j] = byte(v >> (8 * uint(j)))
		}
	}
	return out
}

// Seq is a serialisable recipe for a bit sequence.
type Seq struct {
	Family string  `json:"family"`
	N      int     `json:"n"`
	Seed   uint64  `json:"seed,omitempty"`
	A      int     `json:"a,omitempty"`
	B      int     `json:"b,omitempty"`
	F      float64 `json:"f,omitempty"`
	Bits   string  `json:"bits,omitempty"` // explicit bits or tile, '0'/'1'
	Pos    []int   `json:"pos,omitempty"`
}

func bitsOf(s string) []bool {
	out := make([]bool, len(s))
	for i := range s {
		out[i] = s[i] == '1'
	}
	return out
}

// BitString renders bits as '0'/'1'.
func BitString(b []bool) string {
	out := make([]byte, len(b))
	for i, v := range b {
		if v {
			out[i] = '1'
		} else {
			out[i] = '0'
		}
	}
	return string(out)
}

// Expand turns the recipe into bits; pure function of the recipe.
func (q Seq) Expand() []bool {
	n := q.N
	out := make([]bool, n)
	r := NewRng(q.Seed)
	switch q.Family {
	case "explicit":
		return bitsOf(q.Bits)
	case "uniform":
		fillUniform(out, r)
	case "biased":
		for i := range out {
			out[i] = r.Float() < q.F
		}
	case "constant":
		for i := range out {
			out[i] = q.A != 0
		}
	case "alternating":
		for i := range out {
			out[i] = (i+q.A)%2 == 0
		}
	case "periodic":
		t := bitsOf(q.Bits)
		for i := range out {
			out[i] = t[i%len(t)]
		}
	case "sparse": // base value A, flipped at Pos
		for i := range out {
			out[i] = q.A != 0
		}
		for _, p := range q.Pos {
			if p >= 0 && p < n {
				out[p] = !out[p]
			}
		}
	case "markov": // stay with probability F
		cur := r.Uint64()&1 == 1
		for i := range out {
			out[i] = cur
			if r.Float() >= q.F {
				cur = !cur
			}
		}
	case "transition": // A ones/zeros up to Pos[0], then the complement
		for i := range out {
			out[i] = (i < q.Pos[0]) == (q.A != 0)
		}
	case "longrun": // uniform with one run of value A, length B at Pos[0]
		fillUniform(out, r)
		for i := q.Pos[0]; i < q.Pos[0]+q.B && i < n; i++ {
			out[i] = q.A != 0
		}
	case "runs": // run lengths uniform in [1,A], a fraction F of them pinned to B
		cur := r.Uint64()&1 == 1
		i := 0
		for i < n {
			l := 1 + r.Intn(max(q.A, 1))
			if q.B > 0 && r.Float() < q.F {
				l = q.B
			}
			for j := 0; j < l && i < n; j++ {
				out[i] = cur
				i++
			}
			cur = !cur
		}
	case "walk": // +-1 walk whose maximum absolute excursion is exactly A (1 <= A <= n)
		z := q.A
		up := q.B == 0
		s := 0
		for i := range out {
			var b bool
			switch {
			case i < z:
				b = up
			case s >= z:
				b = false
			case s <= -z:
				b = true
			default:
				b = r.Uint64()&1 == 1
			}
			out[i] = b
			if b {
				s++
			} else {
				s--
			}
		}
	case "tone": // sign of a cosine with A cycles over the sequence, phase F
		for i := range out {
			out[i] = math.Cos(2*math.Pi*float64(q.A)*float64(i)/float64(n)+q.F) >= 0
		}
	case "blocklr": // blocks of length A; each block's longest run of ones is exactly L, L drawn in [B-1, B+Pos[0]+1]; Pos[1]=1 complements; Pos[2] placement
		m, lo, K := q.A, q.B, q.Pos[0]
		for s := 0; s < n; s += m {
			e := min(s+m, n)
			blk := out[s:e]
			L := lo - 1 + r.Intn(K+3)
			L = max(0, min(L, len(blk)))
			run := 0
			for i := range blk {
				b := r.Uint64()&1 == 1
				if b && run+1 >= L {
					b = false
				}
				blk[i] = b
				if b {
					run++
				} else {
					run = 0
				}
			}
			if L > 0 {
				p := r.Intn(len(blk) - L + 1)
				if len(q.Pos) > 2 { // placement of the longest run: 1 at the block's first bit, 2 at its last bit, 3 alternating last / first (runs that touch across the block boundary)
					bi := s / m
					switch {
					case q.Pos[2] == 1, q.Pos[2] == 3 && bi%2 == 1:
						p = 0
					case q.Pos[2] == 2, q.Pos[2] == 3 && bi%2 == 0:
						p = len(blk) - L
					}
				}
				for i := p; i < p+L; i++ {
					blk[i] = true
				}
				if p > 0 {
					blk[p-1] = false
				}
				if p+L < len(blk) {
					blk[p+L] = false
				}
			}
		}
		if len(q.Pos) > 1 && q.Pos[1] == 1 {
			for i := range out {
				out[i] = !out[i]
			}
		}
	case "debruijn": // a binary de Bruijn cycle of order A (every A-bit pattern exactly once per period), repeated, rotated by B, complemented if Pos[0]==1
		k := q.A
		cyc := deBruijn(k)
		for i := range out {
			out[i] = cyc[(i+q.B)%len(cyc)]
			if len(q.Pos) > 0 && q.Pos[0] == 1 {
				out[i] = !out[i]
			}
		}
	case "wordrecord": // cumulative-sum walk whose final record is set by one whole machine word of ones: lead-in pad Pos[1], A ones
		// (record A), Pos[0] zeros (deficit), alternating bits up to the next multiple of the word size B, then B ones, then a walk that stays just below that record;
		// Pos[2] = 1 reverses the sequence (the same shape seen from the back)
		w := max(q.B, 1)
		i := 0
		put := func(b bool) {
			if i < n {
				out[i] = b
				i++
			}
		}
		for k := 0; k < q.Pos[1]/2*2; k++ {
			put(k%2 == 0)
		}
		for k := 0; k < q.A; k++ {
			put(true)
		}
		for k := 0; k < q.Pos[0]; k++ {
			put(false)
		}
		for k := 0; i%w != 0; k++ {
			put(k%2 == 0)
		}
		for k := 0; k < w; k++ {
			put(true)
		}
		put(false)
		put(false)
		for k := 0; i < n; k++ { // the rest of the walk stays just below the record
			put(k%2 == 0)
		}
		if len(q.Pos) > 2 && q.Pos[2] == 1 {
			for a, b := 0, n-1; a < b; a, b = a+1, b-1 {
				out[a], out[b] = out[b], out[a]
			}
		}
	case "nearflat": // every byte value (almost) equally often (shuffled), then A random single-bit flips: statistics just off their ideal value
		nb := n / 8
		bs := make([]byte, nb)
		for i := range bs {
			bs[i] = byte(i)
		}
		for i := nb - 1; i > 0; i-- {
			j := r.Intn(i + 1)
			bs[i], bs[j] = bs[j], bs[i]
		}
		for i := 0; i < nb*8; i++ {
			out[i] = bs[i/8]>>uint(7-i%8)&1 == 1
		}
		for i := nb * 8; i < n; i++ {
			out[i] = r.Uint64()&1 == 1
		}
		for f := 0; f < q.A && n > 0; f++ {
			p := r.Intn(n)
			out[p] = !out[p]
		}
	case "prefixconst": // a source that is stuck at value A for the first Pos[0] bits and healthy (uniform) afterwards
		fillUniform(out, r)
		for i := 0; i < q.Pos[0] && i < n; i++ {
			out[i] = q.A != 0
		}
	case "bytewords": // 64-bit (8-byte) aligned words, each all-zero / all-one / random / alternating with weights from A (percent of constant words)
		for w := 0; w*64 < n; w++ {
			kind := r.Intn(100)
			var word uint64
			switch {
			case kind < q.A/2:
				word = 0
			case kind < q.A:
				word = ^uint64(0)
			case kind < q.A+5:
				word = 0xaaaaaaaaaaaaaaaa
			default:
				word = r.Uint64()
			}
			for j := 0; j < 64 && w*64+j < n; j++ {
				out[w*64+j] = word>>uint(63-j)&1 == 1
			}
		}
	case "exactones": // exactly A ones, shuffled
		for i := range out {
			out[i] = i < q.A
		}
		for i := n - 1; i > 0; i-- {
			j := r.Intn(i + 1)
			out[i], out[j] = out[j], out[i]
		}
	case "autocorrA": // exactly A disagreements between x and x shifted by B: x[i+B] = x[i] xor e[i], e has A ones (shuffled)
		d := q.B
		e := make([]bool, n-d)
		for i := range e {
			e[i] = i < q.A
		}
		for i := len(e) - 1; i > 0; i-- {
			j := r.Intn(i + 1)
			e[i], e[j] = e[j], e[i]
		}
		for i := 0; i < d; i++ {
			out[i] = r.Uint64()&1 == 1
		}
		for i := 0; i+d < n; i++ {
			out[i+d] = out[i] != e[i]
		}
	case "derivA": // the B-th binary derivative (length n-B) has exactly A ones: integrate a shuffled sequence B times
		k := q.B
		cur := make([]bool, n-k)
		for i := range cur {
			cur[i] = i < q.A
		}
		for i := len(cur) - 1; i > 0; i-- {
			j := r.Intn(i + 1)
			cur[i], cur[j] = cur[j], cur[i]
		}
		for s := 0; s < k; s++ {
			nx := make([]bool, len(cur)+1)
			nx[0] = r.Uint64()&1 == 1
			for i, v := range cur {
				nx[i+1] = nx[i] != v
			}
			cur = nx
		}
		copy(out, cur)
	case "exactruns": // n/2 ones, n/2 zeros (n even), exactly A runs (A even): random compositions of n/2 into A/2 parts
		half, parts := n/2, q.A/2
		comp := func() []int {
			// choose parts-1 distinct cut points in 1..half-1
			cuts := map[int]bool{}
			for len(cuts) < parts-1 {
				cuts[1+r.Intn(half-1)] = true
			}
			var ls []int
			last := 0
			for c := 1; c <= half; c++ {
				if cuts[c] || c == half {
					ls = append(ls, c-last)
					last = c
				}
			}
			return ls
		}
		a, b := comp(), comp()
		pos := 0
		for i := 0; i < parts; i++ {
			for j := 0; j < a[i]; j++ {
				out[pos] = true
				pos++
			}
			for j := 0; j < b[i]; j++ {
				out[pos] = false
				pos++
			}
		}
	case "balanced": // exactly n/2 ones, shuffled
		for i := range out {
			out[i] = i < n/2
		}
		for i := n - 1; i > 0; i-- {
			j := r.Intn(i + 1)
			out[i], out[j] = out[j], out[i]
		}
	default:
		panic("gen: unknown family " + q.Family)
	}
	return out
}

// deBruijn returns the lexicographically least binary de Bruijn cycle of order k (length 2^k), by the
// "prefer-one is avoided" Lyndon-word concatenation (FKM algorithm).
func deBruijn(k int) []bool {
	if k < 1 {
		k = 1
	}
	var seq []bool
	a := make([]int, k+1)
	var db func(t, p int)
	db = func(t, p int) {
		if t > k {
			if k%p == 0 {
				for i := 1; i <= p; i++ {
					seq = append(seq, a[i] == 1)
				}
			}
			return
		}
		a[t] = a[t-p]
		db(t+1, p)
		for j := a[t-p] + 1; j < 2; j++ {
			a[t] = j
			db(t+1, t)
		}
	}
	db(1, 1)
	return seq
}

func fillUniform(out []bool, r *Rng) {
	for i := 0; i < len(out); i += 64 {
		v := r.Uint64()
		for j := 0; j < 64 && i+j < len(out); j++ {
			out[i+j] = v>>uint(j)&1 == 1
		}
	}
}

// Pack packs bits MSB-first into bytes (len(bits) must be a multiple of 8).
func Pack(bits []bool) []byte {
	out := make([]byte, len(bits)/8)
	for i := range out {
		var v byte
		for j := 0; j < 8; j++ {
			v <<= 1
			if bits[i*8+j] {
				v |= 1
			}
		}
		out[i] = v
	}
	return out
}

// Unpack expands bytes MSB-first (the harness's own expansion).
func Unpack(data []byte) []bool {
	out := make([]bool, 0, len(data)*8)
	for _, b := range data {
		for j := 7; j >= 0; j-- {
			out = append(out, b>>uint(j)&1 == 1)
		}
	}
	return out
}

// Families lists the general-purpose families drawn by DrawSeq.
var Families = []string{"explicit", "uniform", "biased", "constant", "alternating", "periodic", "sparse",
	"markov", "transition", "longrun", "runs", "walk", "tone", "balanced", "debruijn", "bytewords", "nearflat", "prefixconst"}

// DrawSeq draws a recipe of length n from the given families (nil = all).
// "explicit" is only used for n <= 4096 (bits are rapid draws and shrink structurally).
func DrawSeq(t *rapid.T, n int, families []string) Seq {
	if families == nil {
		families = Families
	}
	fam := rapid.SampledFrom(families).Draw(t, "family")
	if fam == "explicit" && n > 4096 {
		fam = "uniform"
	}
	q := Seq{Family: fam, N: n}
	seed := func() uint64 { return rapid.Uint64().Draw(t, "seed") }
	switch fam {
	case "explicit":
		b := rapid.SliceOfN(rapid.Bool(), n, n).Draw(t, "bits")
		q.Bits = BitString(b)
	case "uniform", "balanced":
		q.Seed = seed()
	case "biased":
		q.Seed = seed()
		q.F = rapid.SampledFrom([]float64{0.01, 0.05, 0.2, 0.35, 0.45, 0.48, 0.52, 0.55, 0.65, 0.8, 0.95, 0.99}).Draw(t, "p")
	case "constant":
		q.A = rapid.IntRange(0, 1).Draw(t, "v")
	case "alternating":
		q.A = rapid.IntRange(0, 1).Draw(t, "phase")
	case "periodic":
		p := rapid.IntRange(1, 70).Draw(t, "period")
		q.Bits = BitString(rapid.SliceOfN(rapid.Bool(), p, p).Draw(t, "tile"))
	case "sparse":
		q.A = rapid.IntRange(0, 1).Draw(t, "base")
		k := rapid.IntRange(1, 4).Draw(t, "k")
		for i := 0; i < k; i++ {
			q.Pos = append(q.Pos, rapid.IntRange(0, n-1).Draw(t, "pos"))
		}
	case "markov":
		q.Seed = seed()
		q.F = rapid.SampledFrom([]float64{0.05, 0.2, 0.4, 0.6, 0.8, 0.9, 0.97, 0.995}).Draw(t, "stay")
	case "transition":
		q.A = rapid.IntRange(0, 1).Draw(t, "first")
		q.Pos = []int{rapid.IntRange(0, n).Draw(t, "pos")}
	case "longrun":
		q.Seed = seed()
		q.A = rapid.IntRange(0, 1).Draw(t, "v")
		q.B = rapid.IntRange(1, max(1, min(n, 40))).Draw(t, "len")
		if rapid.IntRange(0, 4).Draw(t, "huge") == 0 {
			q.B = rapid.IntRange(1, n).Draw(t, "hugelen")
		}
		q.Pos = []int{rapid.IntRange(0, n-1).Draw(t, "pos")}
	case "runs":
		q.Seed = seed()
		q.A = rapid.IntRange(1, 24).Draw(t, "maxlen")
		q.B = rapid.IntRange(0, 24).Draw(t, "pin")
		q.F = rapid.SampledFrom([]float64{0.02, 0.1, 0.5}).Draw(t, "pinfrac")
	case "walk":
		q.Seed = seed()
		// log-uniform excursion in [1,n]
		e := rapid.Float64Range(0, 1).Draw(t, "zexp")
		z := int(math.Round(math.Pow(float64(n), e)))
		q.A = max(1, min(n, z))
		q.B = rapid.IntRange(0, 1).Draw(t, "down")
	case "nearflat":
		q.Seed = seed()
		q.A = rapid.SampledFrom([]int{0, 1, 2, 5, 20, 60, 200}).Draw(t, "flips")
	case "prefixconst":
		q.Seed = seed()
		q.A = rapid.IntRange(0, 1).Draw(t, "stuck")
		q.Pos = []int{n * rapid.IntRange(1, 9).Draw(t, "tenths") / 10}
	case "bytewords":
		q.Seed = seed()
		q.A = rapid.SampledFrom([]int{5, 20, 50, 80, 95}).Draw(t, "constant_percent")
	case "debruijn":
		q.A = rapid.IntRange(1, 12).Draw(t, "order")
		q.B = rapid.IntRange(0, 1<<uint(q.A)-1).Draw(t, "rotation")
		q.Pos = []int{rapid.IntRange(0, 1).Draw(t, "complement")}
	case "tone":
		q.A = rapid.IntRange(1, max(1, n/2)).Draw(t, "cycles")
		q.F = rapid.SampledFrom([]float64{0, 0.3, 1.1, 2.5}).Draw(t, "phase")
	}
	return q
}
