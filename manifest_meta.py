META = {}
NOTES = ("All checks are property-based tests / fuzzing (generated-input search against an explicit oracle). "
         "./check <ID> --tier quick|thorough; exit 2 = inconclusive (never a verdict).")
_pending = "check under construction in this session; will be claimed once it is built and has passed on the repaired tree"
NOT_APPLICABLE = {f"C{i:02d}": _pending for i in range(1, 21)}

META["C12"] = {
    "text": "Generated search: Threshold(s) compared with an exact-integer decision rule (thorough: every s in 1..10^6, i.e. exhaustive over the stated range); "
            "ThresholdQ compared with an independent binning + big.Float incomplete gamma on generated lists incl. exact interval edges, and under drawn permutations. "
            "Exploration is the right level: the functions are pure and cheap, the threshold domain is finite and fully enumerated in the thorough tier.",
    "design_ref": "DESIGN.md section 5 C12",
    "note": "Trusted: Go math library, the mpmath-validated reference Igamc, big.Int arithmetic.",
    "technique": "property-based testing (rapid) against reference model + exhaustive enumeration of s + metamorphic permutation invariance",
}
