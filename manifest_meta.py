META = {}
NOTES = ("All checks are property-based tests / fuzzing (generated-input search against an explicit oracle). "
         "./check <ID> --tier quick|thorough; exit 2 = inconclusive (never a verdict).")
NOT_APPLICABLE = {}

META["C12"] = {
    "text": "Generated search: Threshold(s) compared with an exact-integer decision rule (thorough: every s in 1..10^6, i.e. exhaustive over the stated range); "
            "ThresholdQ compared with an independent binning + big.Float incomplete gamma on generated lists incl. exact interval edges, and under drawn permutations. "
            "Exploration is the right level: the functions are pure and cheap, the threshold domain is finite and fully enumerated in the thorough tier.",
    "design_ref": "DESIGN.md section 5 C12",
    "note": "Trusted: Go math library, the mpmath-validated reference Igamc, big.Int arithmetic.",
    "technique": "property-based testing (rapid) against reference model + exhaustive enumeration of s + metamorphic permutation invariance",
}


_T = "Trusted: Go toolchain and math library, pgregory.net/rapid, the harness's own reference implementations (validated on every run against the standard's annex known answers and an mpmath table)."

def _m(pid, text, technique, note=_T):
    META[pid] = {"text": text, "design_ref": f"DESIGN.md section 5 {pid}", "note": note, "technique": technique}

_m("C01", "Generated search over structured bit sequences x documented parameters, compared (1e-8) with an independent transcription of the standard + big.Float incomplete gamma; boundary sweep of the automatic block length. "
          "Exploration: the input space is unbounded, so the claim is 'no deviation on the stated number of generated cases', with generator families derived from the quantifier and the code's branch conditions.",
   "property-based testing (rapid) against an independent reference model + deterministic boundary sweep")
_m("C02", "Generated search over run-structured sequences (run lists pinned around the cut-off k, blockwise forced longest runs at each class edge, regime-boundary lengths), compared with a run-decomposition reference whose class tables are re-derived by exact big-integer DP. Exploration level.",
   "property-based testing (rapid) against an independent reference model + exact DP table derivation + boundary sweep")
_m("C03", "Generated search over sequences x k, d, direction incl. walks forced to every order of maximum excursion and tiles that make the derivative/autocorrelation degenerate, compared with naive references. Exploration level.",
   "property-based testing (rapid) against an independent reference model + parameter sweep")
_m("C04", "Exhaustive enumeration of all 2^m one-block inputs (m <= 12 quick, <= 18 thorough) plus generated LFSR / hostile blocks at m = 500/1000/5000, matrices of constructed rank, Maurer inputs with restricted initialisation alphabets; a panic is a violation; values compared with bitset GF(2) rank, textbook Berlekamp-Massey and a map-based Maurer. "
          "Thorough adds native go fuzz targets with the same differential oracle. Exploration (exhaustive for small m).",
   "property-based testing (rapid) + exhaustive small-block enumeration + native go fuzzing, differential against reference implementations")
_m("C05", "Generated search over lengths (every n <= 64, powers of two, 2^k+1, arbitrary), spectral shapes and GOMAXPROCS (incl. counts that are not powers of two), compared with a naive O(N^2) DFT / independent recursive FFT; bins within 1e-9 of the threshold may count either way, exactly as the property allows. The thorough tier also runs n = 10^8 and 2^27 against a closed-form spectrum. Exploration level.",
   "property-based testing (rapid) against naive DFT / independent FFT reference")
_m("C06", "Generated (a,x,x2) triples dense around both switch-over lines, the underflow cut-off and both tails, compared with a finite-sum closed form in 320-bit big.Float (tolerance 1e-12+1e-14a); range, x<=0 and monotonicity asserted; a third of the cases are preceded by other calls (shapes at power-of-two strides) because the result must not depend on history. Exploration over a continuous domain.",
   "property-based testing (rapid) against a high-precision reference + metamorphic monotonicity")
_m("C07", "Streams composed from a pool of classified samples so that pass counts sit at threshold-1/threshold and ten-bin histograms sit on both sides of the 1e-4 uniformity boundary; verdict, error and named item compared with an independent decision model; trailing bytes must not matter. Exploration: the 10^6-bit workflows cost 30-80 s per stream, so few of those per run.",
   "property-based testing (rapid) with boundary-targeted stream composition against an independent decision model")
_m("C08", "Differential: sequential vs parallel workflow on the same generated stream under perturbed schedules (read delays, GOMAXPROCS, worker count via taskset) plus a -race build. Exploration: schedules are sampled, not enumerated; the oracle holds on every schedule, so nondeterminism can only cause misses, never false alarms.",
   "property-based differential testing (rapid) with schedule perturbation + Go race detector")
_m("C09", "Fault enumeration: workflow x failure kind x offset (every offset for SingleDetect at three sizes; every sample boundary -1/0/+1 and the extremes for the periodic workflows; the cheap offsets for the 10^6-bit workflows) plus rapid-drawn fault points, delays and GOMAXPROCS; 'never hangs' is decided by a goroutine-quiescence detector, leaks by a goroutine census.",
   "fault-injection enumeration + property-based testing (rapid), quiescence-detector hang oracle")
_m("C10", "Metamorphic/differential: the same generated stream delivered in full reads (sequential reference) and through chunk plans (1-byte, primes, random, boundary-straddling, one short read) to each of the seven workflows. Exploration level.",
   "property-based metamorphic testing (rapid) over read-size histories")
_m("C11", "Generated numByte x contents (incl. contents tuned so that the poker P for one m crosses 0.01 while another does not) compared with a reference poker test and the documented m rule; exact byte consumption asserted; sweep over every numByte 0..400 (0..4096 thorough). Exploration level.",
   "property-based testing (rapid) against a reference model + length sweep")
_m("C13", "Generated directory trees x worker counts x GOMAXPROCS run through the built rddetector binary (2*10^4 and 10^6 scales end to end; the 10^8 worker through an overlay shim on short files; the 10^8 header switch on sparse files); the report is judged cell by cell against the library call that the header text names; schedules of worker / writer / walker goroutines are sampled through worker counts, GOMAXPROCS, pinned one-worker shards and race-detector builds of the binary and the shim; an older report may already exist at the output path. Exploration level.",
   "property-based testing (rapid) of the built CLI with a header-driven differential oracle")
_m("C14", "All 256 constant streams and generated periodic tiles (uniform, sparse at every bit position, structured) through all seven workflows (sequential first, then the parallel twin); hostile single-bit 64-byte tiles deterministically through PowerOnDetect; single-shot 0x00/0xFF at every length up to 4096 (sweep), at large lengths up to 2^24 and after an earlier healthy call (history). Oracle: no panic, rejected with error. Exploration level.",
   "property-based testing (rapid) + enumeration of constant sources, validity-predicate oracle")
_m("C15", "Generated byte strings x tests x documented parameters: bit-identity (Float64bits) between byte entry point, bit entry point on the harness's own MSB-first expansion, convenience wrapper, registry runner with the standard's defaults, Round15/Round12, ReadGroup, B2bitArr/B2Byte; results handed out by the library are overwritten by the caller and the calls repeated (no aliasing of shared state). Exploration level.",
   "property-based differential testing (rapid) between entry points, bit-identity oracle")
_m("C16", "Generated and swept extreme sequences (constant, alternating, single transition, extreme bias, balanced, sparse) from each test's minimum length to 10^6 (10^7 thorough) through every test and parameter: range, finiteness, P/Q relation and Pass flag; for five runners inputs whose P lies within 3e-6 of 0.01 are constructed by inverting the closed-form P-value. Exploration level.",
   "property-based testing (rapid) with a validity-predicate oracle + size sweep")
_m("C17", "Generated sequences x admissible transformations (complement, reverse, rotation by any amount, block permutation + tail rewrite): metamorphic equalities listed in the property, tolerance 1e-9 (+ n-proportional summation-order allowance). Exploration level.",
   "property-based metamorphic testing (rapid)")
_m("C18", "Generated plans of 2..64 concurrent invocations of mixed tests on shared inputs: solitary vs repeated vs concurrent results bit-identical, inputs equal to their snapshots, plus the same check in a -race binary. Exploration: interleavings are sampled.",
   "property-based testing (rapid) of concurrent invocations + Go race detector")
_m("C19", "Generated and swept N, inputs (impulses and tones at every position for small N, random vectors), constructor arguments and wrong-length slices compared with the DFT definition (naive DFT, analytic spectra, directly summed bins, Parseval) and the inverse round trip, under varying GOMAXPROCS; fft.New(2^27) is constructed in every run, a 2^27-point transform in the thorough tier. Exploration level.",
   "property-based testing (rapid) against the DFT definition + round-trip + argument sweep")
_m("C20", "Generated (s, n, output path kind, NumCPU) runs of the built rdgen binary in a scratch directory (odd directory names, pre-existing files, an earlier run into the same directory) with a full file-system census and the detector's own counting pass. Exploration level.",
   "property-based testing (rapid) of the built CLI with a file-system census oracle")
