#!/usr/bin/env python3
"""Prints the markdown table 'seeded change -> which checks catch it' from seeded/*/meta.json and seeded/own/results.json."""
import json, glob, os
rows = []
for mp in sorted(glob.glob("/verif/seeded/*/meta.json")):
    m = json.load(open(mp)); name = os.path.basename(os.path.dirname(mp))
    v = m.get("verified", {})
    ok = all(v.get(k) for k in ("demo_passes_on_clean_tree", "patch_applies", "builds", "demo_fails_with_patch")) and v.get("existing_suite_passes_with_patch", True)
    chk = "; ".join(f"{p}: {'caught' if r['detected'] else ('inconclusive' if r['rc'] == 2 else 'missed')} ({r['wall_s']} s)" for p, r in m.get("my_checks", {}).items())
    rows.append(f"| {name} | {m.get('breaks_property','')} | {m.get('needs_to_manifest','')} | {'yes' if ok else 'NO'} | {chk} |")
print("| seeded change | property | needs, in order to manifest | confirmed (demo fails with / passes without, builds, suite passes) | quick checks run against it |")
print("|---|---|---|---|---|")
print("\n".join(rows))
rp = "/verif/seeded/own/results.json"
if os.path.exists(rp):
    res = json.load(open(rp))
    print("\n| own mutant | existing tests still pass | quick checks |\n|---|---|---|")
    for k, r in sorted(res.items()):
        if "props" not in r:
            print(f"| {k} | (did not build) | - |"); continue
        chk = "; ".join(f"{p}: {'caught' if x['detected'] else ('inconclusive' if x['rc'] == 2 else 'missed')}" for p, x in r["props"].items())
        print(f"| {k} | {'yes' if r.get('existing_tests_pass') else 'no'} | {chk} |")
