#!/usr/bin/env python3
"""tools/seed_verify.py <seed-name> <property> <demo-file> <pkgdir> [--props C01,C02] [--tier quick]
Confirms a seeded change (in /verif/seeded/<seed-name>/patch.diff) in a scratch worktree of /repo:
 demo passes on the clean tree; patch applies, builds; demo fails with the patch; full existing suite passes with the patch;
then runs my check(s) against the patched worktree and records everything in meta.json. /repo itself is never touched."""
import argparse, json, os, re, shutil, subprocess, sys, tempfile, time
ap = argparse.ArgumentParser()
ap.add_argument("name"); ap.add_argument("prop"); ap.add_argument("demo"); ap.add_argument("pkgdir")
ap.add_argument("--props"); ap.add_argument("--tier", default="quick"); ap.add_argument("--skip-suite", action="store_true")
ap.add_argument("--needs", default="")
a = ap.parse_args()
sd = os.path.join("/verif/seeded", a.name)
env = dict(os.environ, GOFLAGS="-mod=mod", GOPROXY="off", GOSUMDB="off", GOTOOLCHAIN="local")
wt = tempfile.mkdtemp(prefix="verif-sv-", dir="/var/tmp"); os.rmdir(wt)
subprocess.check_call(["git", "-C", "/repo", "worktree", "add", "-q", "--detach", wt, "HEAD"])
meta = {"seed": a.name, "breaks_property": a.prop, "needs_to_manifest": a.needs, "verified": {}, "ran": []}
def run(cmd, cwd=wt, timeout=1800):
    p = subprocess.run(cmd, cwd=cwd, env=env, stdout=subprocess.PIPE, stderr=subprocess.STDOUT, timeout=timeout)
    meta["ran"].append({"cmd": " ".join(cmd), "rc": p.returncode})
    return p.returncode, p.stdout.decode(errors="replace")
try:
    demo_src = os.path.join(sd, a.demo)
    is_test = a.demo.endswith("_test.go")
    def run_demo():
        if is_test:
            dst = os.path.join(wt, a.pkgdir, "zz_seed_demo_verif_test.go")
            shutil.copyfile(demo_src, dst)
            names = re.findall(r"^func (Test\w+)\(", open(demo_src).read(), re.M)
            rc, out = run(["go", "test", "-vet=off", "-count=1", "-run", "^(" + "|".join(names) + ")$", "./" + a.pkgdir], timeout=3000)
            os.remove(dst)
        else:
            os.makedirs(os.path.join(wt, "_seed"), exist_ok=True)  # some demo programs keep their scratch files under ./_seed
            dst = os.path.join(wt, "zz_seed_demo_verif"); os.makedirs(dst, exist_ok=True)
            shutil.copyfile(demo_src, os.path.join(dst, "main.go"))
            rc, out = run(["go", "run", "./zz_seed_demo_verif"], timeout=3000)
            shutil.rmtree(dst)
        return rc, out
    rc, out = run_demo()
    meta["verified"]["demo_passes_on_clean_tree"] = rc == 0
    if rc != 0: print("DEMO FAILS ON CLEAN TREE\n", out[-1500:])
    rc, out = run(["git", "apply", os.path.join(sd, "patch.diff")])
    meta["verified"]["patch_applies"] = rc == 0
    if rc != 0: print(out); raise SystemExit(1)
    rc, out = run(["go", "build", "./..."])
    meta["verified"]["builds"] = rc == 0
    rc, out = run_demo()
    meta["verified"]["demo_fails_with_patch"] = rc != 0
    meta["demo_output_with_patch"] = out[-800:]
    if not a.skip_suite:
        t0 = time.time()
        rc, out = run(["go", "test", "-vet=off", "-count=1", "-timeout", "25m", "./..."], timeout=3000)
        meta["verified"]["existing_suite_passes_with_patch"] = rc == 0
        meta["suite_wall_s"] = round(time.time() - t0)
        if rc != 0: print("SUITE FAILS WITH PATCH\n", out[-1500:])
        subprocess.call(["git", "-C", wt, "checkout", "--", "data/data.bin"])
    results = {}
    for p in (a.props.split(",") if a.props else [a.prop]):
        t0 = time.time()
        pr = subprocess.run(["/verif/check", p, "--tier", a.tier], env=dict(os.environ, VERIF_REPO=wt), stdout=subprocess.PIPE, stderr=subprocess.PIPE)
        err = pr.stderr.decode(errors="replace")
        for line in pr.stdout.decode(errors="replace").splitlines():
            mm = re.match(r"VIOLATION property=(\S+) replay=(\S+)", line)
            if mm and os.path.exists(mm.group(2)):
                shutil.copyfile(mm.group(2), os.path.join(sd, f"replay-{p}.json"))   # the (shrunk) case my check found on this change
                break
        m = re.search(r"---- violation ----\n(.*?)(?:\n----|\nVIOLATION|\Z)", err, re.S)
        results[p] = {"rc": pr.returncode, "detected": pr.returncode == 1, "wall_s": round(time.time() - t0), "tier": a.tier,
                      "first_violation": (m.group(1)[:600] if m else "")}
        print(a.name, p, "rc=%d" % pr.returncode, "DETECTED" if pr.returncode == 1 else "MISSED" if pr.returncode == 0 else "INCONCLUSIVE", results[p]["first_violation"][:200].replace("\n", " "))
    meta["my_checks"] = results
    print(json.dumps(meta["verified"]))
finally:
    subprocess.call(["git", "-C", "/repo", "worktree", "remove", "--force", wt])
    shutil.rmtree(wt, ignore_errors=True)
    old = {}
    mp = os.path.join(sd, "meta.json")
    if os.path.exists(mp):
        try: old = json.load(open(mp))
        except Exception: pass
    for k, v in old.get("verified", {}).items():
        meta["verified"].setdefault(k, v)   # e.g. the suite result of an earlier full verification when run with --skip-suite
    if "my_checks" in old and "my_checks" in meta:
        hist = old.get("history", []) + [{"my_checks": old["my_checks"]}]
        meta["history"] = hist[-5:]
    json.dump(meta, open(mp, "w"), indent=1, ensure_ascii=False)
