#!/usr/bin/env python3
"""Promotes the shrunk failing cases that the checks found on seeded changes (seeded/*/replay-<prop>.json) to the regression
replay tier (/verif/replays/<prop>-seed-<name>.json), provided the case is cheap (no 10^6-bit workflow) and passes on the unchanged tree."""
import glob, json, os, shutil, subprocess, sys
for rp in sorted(glob.glob("/verif/seeded/*/replay-*.json")):
    name = os.path.basename(os.path.dirname(rp)); prop = os.path.basename(rp)[7:-5]
    try:
        r = json.load(open(rp))
    except Exception:
        continue
    txt = json.dumps(r.get("case"))
    if r.get("mode") in ("poweron", "factory", "big") or '"workflow": "poweron"' in txt or '"workflow": "factory"' in txt or len(txt) > 60000 or '"scale": "1E6"' in txt or '"race": true' in txt:
        print("skip (expensive)", rp); continue
    dst = f"/verif/replays/{prop}-seed-{name}.json"
    if os.path.exists(dst):
        continue
    p = subprocess.run(["/verif/check", prop, "--replay", rp], stdout=subprocess.PIPE, stderr=subprocess.PIPE)
    if p.returncode == 0:
        shutil.copyfile(rp, dst); print("promoted", dst)
    else:
        print("NOT promoted (does not pass on the unchanged tree?)", rp, p.stdout.decode()[-200:])
