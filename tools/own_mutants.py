#!/usr/bin/env python3
"""tools/own_mutants.py [name-substring]: for each mutant in seeded/own/mutants.json build the patch against /repo HEAD (scratch worktree),
run the existing tests that cover the touched package, then the quick checks of the listed properties against the patched worktree.
Results -> seeded/own/results.json. /repo itself is never touched."""
import json, os, re, subprocess, sys, tempfile, time, shutil
V = "/verif"
muts = json.load(open(f"{V}/seeded/own/mutants.json"))
flt = sys.argv[1] if len(sys.argv) > 1 else ""
resp = f"{V}/seeded/own/results.json"
results = json.load(open(resp)) if os.path.exists(resp) else {}
env = dict(os.environ, GOFLAGS="-mod=mod", GOPROXY="off", GOSUMDB="off", GOTOOLCHAIN="local")
for m in muts:
    if flt and flt not in m["name"]:
        continue
    name = m["name"]
    p = subprocess.run([f"{V}/tools/mkpatch.py", "own/" + name, m["file"]], input=json.dumps(m["edits"]).encode(), stdout=subprocess.PIPE, stderr=subprocess.STDOUT)
    if p.returncode != 0:
        results[name] = {"error": "patch/build failed", "log": p.stdout.decode(errors="replace")[-800:]}
        print(name, "PATCH/BUILD FAILED"); json.dump(results, open(resp, "w"), indent=1, ensure_ascii=False); continue
    wt = tempfile.mkdtemp(prefix="verif-om-", dir="/var/tmp"); os.rmdir(wt)
    subprocess.check_call(["git", "-C", "/repo", "worktree", "add", "-q", "--detach", wt, "HEAD"])
    r = {"props": {}, "file": m["file"]}
    try:
        subprocess.check_call(["git", "-C", wt, "apply", f"{V}/seeded/own/{name}/patch.diff"])
        pk = "./" + os.path.dirname(m["file"]) if os.path.dirname(m["file"]) else "."
        tests = [["go", "test", "-vet=off", "-count=1", "."]]
        if m["file"].startswith("detect/"):
            tests.append(["go", "test", "-vet=off", "-count=1", "-timeout", "25m", "./detect"])
        elif m["file"].startswith("fft/"):
            tests.append(["go", "test", "-vet=off", "-count=1", "./fft"])
        ok = True
        for t in tests:
            tp = subprocess.run(t, cwd=wt, env=env, stdout=subprocess.PIPE, stderr=subprocess.STDOUT)
            ok = ok and tp.returncode == 0
        r["existing_tests_pass"] = ok
        subprocess.call(["git", "-C", wt, "checkout", "--", "data/data.bin"])
        for prop in m["props"]:
            t0 = time.time()
            cp = subprocess.run([f"{V}/check", prop, "--tier", "quick"], env=dict(os.environ, VERIF_REPO=wt), stdout=subprocess.PIPE, stderr=subprocess.PIPE)
            err = cp.stderr.decode(errors="replace")
            mm = re.search(r"---- violation ----\n(.*?)(?:\n----|\nVIOLATION|\Z)", err, re.S)
            r["props"][prop] = {"rc": cp.returncode, "detected": cp.returncode == 1, "wall_s": round(time.time() - t0), "first_violation": (mm.group(1)[:400] if mm else err[-300:] if cp.returncode == 2 else "")}
            print(name, prop, "DETECTED" if cp.returncode == 1 else "MISSED" if cp.returncode == 0 else "INCONCLUSIVE", "tests_pass=%s" % ok, flush=True)
    finally:
        subprocess.call(["git", "-C", "/repo", "worktree", "remove", "--force", wt]); shutil.rmtree(wt, ignore_errors=True)
    results[name] = r
    json.dump(results, open(resp, "w"), indent=1, ensure_ascii=False)
