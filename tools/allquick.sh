#!/bin/bash
# usage: tools/allquick.sh <seed> [tier]  -> one line per property in /var/tmp/allquick-<seed>-<tier>.log (evidence goes to a scratch dir)
seed=$1; tier=${2:-quick}
cd /verif
log=/var/tmp/allquick-$seed-$tier.log; : > $log
ev=$(mktemp -d /var/tmp/verif-ev-XXXX)
for i in $(seq -w 1 20); do
  s=$(date +%s)
  out=$(VERIF_EVIDENCE_DIR=$ev VERIF_SEED=$seed ./check C$i --tier $tier 2>/var/tmp/allquick-$seed-$tier-C$i.err | tail -1)
  echo "C$i rc=$? $(( $(date +%s) - s ))s $out" >> $log
done
rm -rf $ev
