#!/bin/bash
# tools/collect_seed.sh <Cxx> <round> <demo file> <pkgdir> <props> <needs...>   (copies /tmp/seed<round>/<Cxx>/_seed to seeded/<Cxx>-a<round> and verifies it)
p=$1; r=$2; demo=$3; pkg=$4; props=$5; shift 5
src=/tmp/seed$r/$p/_seed; [ "$r" = 1 ] && src=/tmp/seed/$p/_seed
dst=/verif/seeded/$p-a$r
mkdir -p $dst && cp -r $src/* $dst/ && rm -f $dst/*.log
/verif/tools/seed_verify.py $p-a$r $p "$demo" "$pkg" --props "$props" --needs "$*" > /var/tmp/sv-$p-a$r.log 2>&1
grep -E "DETECTED|MISSED|INCONCLUSIVE|FAILS|DOES NOT|demo_passes" /var/tmp/sv-$p-a$r.log | cut -c1-250
