#!/usr/bin/env python3
"""tools/mkpatch.py <seeded-name> <file> <<< JSON [[old,new],...] : builds /verif/seeded/<name>/patch.diff against /repo HEAD
(in a scratch worktree; /repo itself is never touched)."""
import json, os, subprocess, sys, tempfile, shutil
name, path = sys.argv[1], sys.argv[2]
edits = json.load(sys.stdin)
wt = tempfile.mkdtemp(prefix="verif-mk-", dir="/var/tmp"); os.rmdir(wt)
subprocess.check_call(["git", "-C", "/repo", "worktree", "add", "-q", "--detach", wt, "HEAD"])
try:
    out = os.path.join("/verif/seeded", name); os.makedirs(out, exist_ok=True)
    pf = os.path.join(out, "patch.diff")
    if os.path.exists(pf) and os.environ.get("APPEND"):
        subprocess.check_call(["git", "-C", wt, "apply", pf])
    p = os.path.join(wt, path)
    s = open(p, encoding="utf-8").read()
    for old, new in edits:
        assert s.count(old) >= 1, "not found: " + old
        s = s.replace(old, new, 1)
    open(p, "w", encoding="utf-8").write(s)
    subprocess.check_call(["gofmt", "-l", os.path.dirname(p)])
    subprocess.check_call(["go", "build", "./..."], cwd=wt)
    diff = subprocess.check_output(["git", "-C", wt, "diff"])
    open(pf, "wb").write(diff)
    print("wrote", pf, len(diff), "bytes")
finally:
    subprocess.call(["git", "-C", "/repo", "worktree", "remove", "--force", wt])
