#!/bin/bash
# usage: tools/mutant.sh <patch.diff> <property id>... ; applies the patch to a scratch worktree of /repo (never to /repo itself),
# runs the quick checks against it, prints one line per property, removes the worktree.
set -u
patch=$(realpath "$1"); shift
wt=$(mktemp -d /var/tmp/verif-wt-XXXX)
rmdir "$wt"
git -C /repo worktree add -q --detach "$wt" HEAD || exit 3
trap 'git -C /repo worktree remove --force "$wt" >/dev/null 2>&1; rm -rf "$wt"' EXIT
if ! git -C "$wt" apply "$patch"; then echo "PATCH DOES NOT APPLY: $patch"; exit 3; fi
for p in "$@"; do
  out=$(VERIF_REPO="$wt" "$(dirname "$0")/../check" "$p" --tier "${TIER:-quick}" 2>/tmp/mutant.$$.err)
  rc=$?
  echo "$(basename "$(dirname "$patch")") $p rc=$rc $(echo "$out" | grep -c '^VIOLATION') violation line(s); first: $(grep -m1 -A2 -e '---- violation' /tmp/mutant.$$.err | tail -2 | tr '\n' ' ' | cut -c1-300)"
  rm -f /tmp/mutant.$$.err
done
