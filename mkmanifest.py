#!/usr/bin/env python3
"""Writes MANIFEST.json from checkcfg.py + manifest_meta.py (kept valid at all times)."""
import json, os, sys
sys.path.insert(0, os.path.dirname(os.path.abspath(__file__)))
from checkcfg import PROPS
from manifest_meta import META, NOT_APPLICABLE, NOTES

checks = []
for pid in sorted(PROPS):
    m = META[pid]
    checks.append({
        "property_id": pid,
        "quick_cmd": f"./check {pid} --tier quick",
        "thorough_cmd": f"./check {pid} --tier thorough",
        "evidence_file": f"/verif/evidence/{pid}.json",
        "replay_cmd_template": f"./check {pid} --replay {{path}}",
        "engine": "rapid-harness",
        "level_claimed": {"category": PROPS[pid]["level"], "text": m["text"], "design_ref": m["design_ref"]},
        "level_note": m["note"],
        "technique": m["technique"],
    })
man = {
    "version": 1,
    "setup_cmd": "./check --setup",
    "hooks": {
        "guard": "verif",
        "enable": "go build tag: every build done by ./check passes -tags verif (no hook code exists in /repo; nothing is guarded)",
        "baseline_off_cmd": "cd /repo && go test -vet=off -count=1 -timeout 25m ./...",
        "source_commits": [],
        "add_only": True,
    },
    "engines": [{"name": "rapid-harness", "path": "/verif/harness", "serves_properties": sorted(PROPS),
                 "kind_free_text": "Go module: pgregory.net/rapid v1.3.0 generators + independent oracles (ref/), sharded by the python driver ./check; native go fuzz targets in the thorough tier"}],
    "checks": checks,
    "not_applicable": [{"property_id": k, "reason": v} for k, v in sorted(NOT_APPLICABLE.items()) if k not in PROPS],
    "notes": NOTES,
}
json.dump(man, open(os.path.join(os.path.dirname(os.path.abspath(__file__)), "MANIFEST.json"), "w"), indent=1, ensure_ascii=False)
print("MANIFEST.json:", len(checks), "checks,", len(man["not_applicable"]), "not applicable")
