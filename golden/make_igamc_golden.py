#!/usr/bin/env python3-vt
# Produces igamc_mpmath.tsv: (a, x, Q(a,x)) at 40 significant digits from mpmath (60-digit working precision).
# Validates the harness oracle ref.Igamc (not the code under test). Deterministic (fixed LCG).
import mpmath as mp
mp.mp.dps = 60
state = 12345
def rnd():
    global state
    state = (state * 6364136223846793005 + 1442695040888963407) % (1 << 64)
    return (state >> 11) / float(1 << 53)
rows = []
shapes = [0.5, 1, 1.5, 2, 3, 4.5, 7.5, 16, 127.5, 128, 500, 2500, 5000]
for i in range(600):
    k = i % 4
    if k == 0:
        a = shapes[int(rnd() * len(shapes))]
    elif k == 1:
        a = (1 + int(rnd() * 40)) / 2
    elif k == 2:
        a = (1 + int(rnd() * 1000)) / 2
    else:
        a = (1 + int(rnd() * 10000)) / 2
    j = int(rnd() * 6)
    if j == 0:
        x = a * (1 + (rnd() - 0.5) * 1e-3)
    elif j == 1:
        x = 1 + (rnd() - 0.5) * 1e-3
    elif j == 2:
        x = abs(a + (rnd() * 20 - 8) * a ** 0.5)
    elif j == 3:
        x = rnd() * (20 * a + 200)
    elif j == 4:
        x = rnd() * 3 * a
    else:
        x = rnd() * 2
    x = float(repr(x)); a = float(a)
    q = mp.gammainc(mp.mpf(a), mp.mpf(x), mp.inf, regularized=True)
    rows.append("%r\t%r\t%s" % (a, x, mp.nstr(q, 40)))
open("igamc_mpmath.tsv", "w").write("\n".join(rows) + "\n")
